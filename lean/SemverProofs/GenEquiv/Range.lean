import SemverProofs.GenEquiv.Bound
/-!
# The definitions extracted from `src/range.rs` are the model's definitions (ranges)
-/
namespace Semver.GenEquiv
open Semver Rust Pred Bound

theorem Range_any : Range.anyRange = some Range.rs_any := by
  simp only [Range.anyRange, Range.rs_any, BoundSet_new, Bound_lower, Bound_upper]
  rfl

/-- a loop that returns `true` at the first element satisfying `p` -/
theorem loop_any {α : Type} (l : List α) (p : α → Bool)
    (body : α → Option Bool × Unit → Id (ForInStep (Option Bool × Unit)))
    (h : ∀ x s, body x s =
      if p x = true then (pure (ForInStep.done (some true, ())) : Id _) else pure (ForInStep.yield (none, ()))) :
    (forIn l (none, ()) body : Id (Option Bool × Unit)) = (if l.any p then some true else none, ()) := by
  rw [forIn_findSome (q := fun x => if p x then some true else none)]
  · congr 1
    induction l with
    | nil => rfl
    | cons a as ih => by_cases hp : p a <;> simp [List.findSome?_cons, hp, ih]
  · intro x s; rw [h]; split <;> simp_all

theorem Range_satisfies (r : Range) (v : Version) : Range.rs_satisfies r v = Range.satisfies r v := by
  first
  | -- written as a loop with an early return
    (unfold Range.satisfies Range.rs_satisfies
     rw [loop_any r (fun x => x.rs_satisfies v) _ (by intros; rfl)]
     simp only [id_run, id_bind, id_pure, BoundSet_satisfies]
     cases List.any r (fun x => x.satisfies v) <;> rfl)
  | -- written with `Iterator::any`
    (have hp : (fun x => BoundSet.rs_satisfies x v) = (fun x => x.satisfies v) := by
       funext x; exact BoundSet_satisfies x v
     simp [Range.rs_satisfies, Range.satisfies, Rust.iter_any, hp])

/-- the shape shared by `allows_all` and `allows_any`: two nested loops that return `true` at the first
pair.  `k` is what the outer body does with the inner loop's result (given by its two cases, so that the
statement does not depend on how `match` was compiled). -/
theorem nested_any (a b : Range) (p : BoundSet → BoundSet → Bool)
    (body : BoundSet → Option Bool × Unit → Id (ForInStep (Option Bool × Unit)))
    (inner : BoundSet → BoundSet → Option Bool × Unit → Id (ForInStep (Option Bool × Unit)))
    (k : Option Bool × Unit → Id (ForInStep (Option Bool × Unit)))
    (h : ∀ x s, body x s = (forIn b (none, ()) (inner x) >>= k))
    (hin : ∀ x y s, inner x y s =
      if p x y = true then (pure (ForInStep.done (some true, ())) : Id _) else pure (ForInStep.yield (none, ())))
    (hks : ∀ v u, k (some v, u) = ForInStep.done (some v, ()))
    (hkn : ∀ u, k (none, u) = ForInStep.yield (none, ())) :
    (forIn a (none, ()) body : Id (Option Bool × Unit)) =
      (if List.any a (fun x => List.any b (fun y => p x y)) then some true else none, ()) := by
  have hb : ∀ x s, body x s =
      if (List.any b (fun y => p x y)) = true then (pure (ForInStep.done (some true, ())) : Id _)
      else pure (ForInStep.yield (none, ())) := by
    intro x s
    rw [h, loop_any b (fun y => p x y) _ (hin x)]
    simp only [id_bind]
    cases List.any b (fun y => p x y)
    · exact hkn ()
    · exact hks true ()
  exact loop_any a (fun x => List.any b (fun y => p x y)) body hb

theorem Range_allows_all (a b : Range) : Range.rs_allows_all a b = Range.allowsAll a b := by
  first
  | (unfold Range.allowsAll Range.rs_allows_all
     rw [nested_any a b (fun x y => x.rs_allows_all y) _ _ _ (by intros; rfl) (by intros; rfl) (by intros; rfl)
       (by intros; rfl)]
     simp only [id_run, id_bind, id_pure, BoundSet_allows_all]
     cases List.any a (fun x => List.any b (fun y => x.allowsAll y)) <;> rfl)
  | (have hp : (fun x y => BoundSet.rs_allows_all x y) = (fun x y => x.allowsAll y) := by
       funext x y; exact BoundSet_allows_all x y
     simp [Range.rs_allows_all, Range.allowsAll, Rust.iter_any, hp])

theorem Range_allows_any (a b : Range) : Range.rs_allows_any a b = Range.allowsAny a b := by
  first
  | (unfold Range.allowsAny Range.rs_allows_any
     rw [nested_any a b (fun x y => x.rs_allows_any y) _ _ _ (by intros; rfl) (by intros; rfl) (by intros; rfl)
       (by intros; rfl)]
     simp only [id_run, id_bind, id_pure, BoundSet_allows_any]
     cases List.any a (fun x => List.any b (fun y => x.allowsAny y)) <;> rfl)
  | (have hp : (fun x y => BoundSet.rs_allows_any x y) = (fun x y => x.allowsAny y) := by
       funext x y; exact BoundSet_allows_any x y
     simp [Range.rs_allows_any, Range.allowsAny, Rust.iter_any, hp])

/-! ### intersect -/

theorem inner_intersect (x : BoundSet) (b : Range) (init : List BoundSet) :
    b.foldl (fun s y => match x.intersect y with
      | some set_ => s ++ [set_]
      | none => s) init = init ++ b.filterMap (fun y => x.intersect y) := by
  induction b generalizing init with
  | nil => simp
  | cons y ys ih =>
    simp only [List.foldl_cons, List.filterMap_cons]
    cases x.intersect y <;> simp [ih]

theorem outer_intersect (a b : Range) (init : List BoundSet) :
    a.foldl (fun s x => s ++ b.filterMap (fun y => x.intersect y)) init = init ++ Range.intersectSets a b := by
  induction a generalizing init with
  | nil => simp [Range.intersectSets]
  | cons x xs ih => simp [List.foldl_cons, ih, Range.intersectSets, List.flatMap_cons]

theorem Range_intersect (a b : Range) : Range.rs_intersect a b = Range.intersect a b := by
  unfold Range.rs_intersect Range.intersect
  first
  | -- two nested `for` loops pushing onto a vector
    (simp only [id_run, id_bind, id_pure]
     rw [forIn_fold (g := fun x s => s ++ b.filterMap (fun y => x.intersect y))]
     · rw [outer_intersect]; simp [Rust.is_empty]
     · intro x s
       rw [forIn_fold (g := fun y s => match x.intersect y with
         | some set_ => s ++ [set_]
         | none => s)]
       · rw [inner_intersect]
       · intro y s; rw [BoundSet_intersect]; cases x.intersect y <;> rfl)
  | -- the same loops ending in `(!sets.is_empty()).then(..)`
    (simp only [id_run, id_bind, id_pure]
     rw [forIn_fold (g := fun x s => s ++ b.filterMap (fun y => x.intersect y))]
     · rw [outer_intersect]; simp [Rust.is_empty]; cases (Range.intersectSets a b) <;> simp
     · intro x s
       rw [forIn_fold (g := fun y s => match x.intersect y with
         | some set_ => s ++ [set_]
         | none => s)]
       · rw [inner_intersect]
       · intro y s; rw [BoundSet_intersect]; cases x.intersect y <;> rfl)
  | -- an iterator chain (`flat_map` / `filter_map` / `flatten`)
    (have hi : ∀ x y : BoundSet, x.rs_intersect y = x.intersect y := BoundSet_intersect
     simp [Range.intersectSets, Rust.flat_map, Rust.filter_map, Rust.collect, RCollect.collect, RIntoList.toList,
       Rust.is_empty, Rust.flatten, RFlatten.flatten, Rust.map, RMap.map, hi, Id.run]
     try (cases (List.flatMap (fun x => List.filterMap (fun y => x.intersect y) b) a) <;> simp)
     done)
  | -- an iterator chain ending in `(!sets.is_empty()).then(..)`
    (have hi : ∀ x y : BoundSet, x.rs_intersect y = x.intersect y := BoundSet_intersect
     simp only [Range.intersectSets, Rust.flat_map, Rust.filter_map, Rust.collect, RCollect.collect, RIntoList.toList,
       Rust.flatten, RFlatten.flatten, Rust.map, RMap.map, hi, Id.run, id]
     simp only [Rust.bool_then, Rust.is_empty]
     by_cases hE : (List.flatMap (fun x => List.filterMap (fun y => x.intersect y) b) a).isEmpty = true
     · simp only [hE, Bool.not_true, Bool.false_eq_true, ↓reduceIte]
     · have hE' : (List.flatMap (fun x => List.filterMap (fun y => x.intersect y) b) a).isEmpty = false := by
         simpa using hE
       simp only [hE', Bool.not_false, Bool.false_eq_true, ↓reduceIte])

/-! ### difference -/

theorem diffStep_gen (rem : List BoundSet) (r : BoundSet) (x : List BoundSet) (h : diffStep rem r = some x) :
    (Rust.collect (Rust.flatten (Rust.filter_map rem (fun piece => piece.rs_difference r))) : List BoundSet) = x := by
  simp only [Rust.collect, RCollect.collect, Rust.flatten, RFlatten.flatten, Rust.filter_map, id]
  induction rem generalizing x with
  | nil => simp [diffStep] at h; simp [h]
  | cons p ps ih =>
    simp only [diffStep, List.foldr_cons] at h
    change diffStepF r p (diffStep ps r) = some x at h
    cases hps : diffStep ps r with
    | none => simp [diffStepF, hps] at h
    | some rest =>
      have := ih rest hps
      rw [hps] at h
      cases hd : p.difference r with
      | panic => simp [diffStepF, hd] at h
      | none =>
        simp only [diffStepF, hd, Option.some.injEq] at h
        have e : p.rs_difference r = none := by rw [BoundSet_difference p r (by simp [hd]), hd]; rfl
        simp [List.filterMap_cons, e, this, h]
      | some l =>
        simp only [diffStepF, hd, Option.some.injEq] at h
        have e : p.rs_difference r = some l := by rw [BoundSet_difference p r (by simp [hd]), hd]; rfl
        simp [List.filterMap_cons, e, this, ← h]

theorem diffAlt_gen (other : Range) (init x : List BoundSet)
    (h : other.foldl (fun rem righty => rem.bind (diffStep · righty)) (some init) = some x) :
    other.foldl (fun (s : List BoundSet) r =>
      (Rust.collect (Rust.flatten (Rust.filter_map s (fun piece => piece.rs_difference r))) : List BoundSet)) init = x := by
  induction other generalizing init with
  | nil => simpa using h
  | cons r rs ih =>
    simp only [List.foldl_cons, Option.bind_some] at h ⊢
    cases hs : diffStep init r with
    | none =>
      rw [hs] at h
      have : ∀ l : Range, l.foldl (fun rem righty => rem.bind (diffStep · righty)) none = none := by
        intro l; induction l with
        | nil => rfl
        | cons _ _ ih => simpa using ih
      rw [this] at h; cases h
    | some y =>
      rw [hs] at h
      rw [diffStep_gen init r y hs]
      exact ih y h

theorem diffPieces_gen (a b : Range) (init p : List BoundSet) (h : diffPieces a b = some p)
    (g : BoundSet → List BoundSet) (hg : ∀ lefty x, diffAlt lefty b = some x → g lefty = x) :
    a.foldl (fun s lefty => s ++ g lefty) init = init ++ p := by
  induction a generalizing init p with
  | nil => simp [diffPieces] at h; simp [h]
  | cons l ls ih =>
    simp only [diffPieces, List.foldr_cons] at h
    change diffPiecesF b l (diffPieces ls b) = some p at h
    cases hl : diffAlt l b with
    | none => simp [diffPiecesF, hl] at h
    | some x =>
      cases hr : diffPieces ls b with
      | none => simp [diffPiecesF, hl, hr] at h
      | some rest =>
        simp only [diffPiecesF, hl, hr, Option.some.injEq] at h
        simp only [List.foldl_cons]
        rw [ih _ rest hr, hg l x hl, ← h]
        simp

/-- the extracted `Range::difference` is the model's wherever the model does not report a panic (outer
`none`); that it never does on well-formed ranges is `C06`/`C08` -/
theorem Range_difference (a b : Range) (r : Option Range) (h : Range.difference a b = some r) :
    Range.rs_difference a b = r := by
  unfold Range.difference at h
  cases hp : diffPieces a b with
  | none => simp [hp] at h
  | some p =>
    simp only [hp, Option.map_some, Option.some.injEq] at h
    unfold Range.rs_difference
    first
    | -- two nested `for` loops
      (simp only [id_run, id_bind, id_pure]
       rw [forIn_fold (g := fun lefty s => s ++ b.foldl (fun (s : List BoundSet) r =>
         (Rust.collect (Rust.flatten (Rust.filter_map s (fun piece => piece.rs_difference r))) : List BoundSet)) [lefty])]
       · rw [diffPieces_gen a b [] p hp _ (fun lefty x hx => diffAlt_gen b [lefty] x hx)]
         first
         | (simpa [Rust.is_empty] using h)
         | (subst h; cases p <;> simp [Rust.is_empty])
       · intro lefty s
         rw [forIn_fold (g := fun r (s : List BoundSet) =>
           (Rust.collect (Rust.flatten (Rust.filter_map s (fun piece => piece.rs_difference r))) : List BoundSet))]
         intro r s; rfl)
    | -- `flat_map` over the alternatives of the receiver with a `fold` over those of the argument
      (have hf := diffPieces_gen a b [] p hp (fun lefty => b.foldl (fun (s : List BoundSet) r =>
         (Rust.collect (Rust.flatten (Rust.filter_map s (fun piece => piece.rs_difference r))) : List BoundSet)) [lefty])
         (fun lefty x hx => diffAlt_gen b [lefty] x hx)
       simp only [Rust.flat_map, Rust.fold, RIntoList.toList, id, List.flatMap_eq_foldl, Id.run, Rust.bool_then,
         Rust.is_empty] at hf ⊢
       simp only [Rust.collect, RCollect.collect, id] at hf ⊢
       simp only [hf]
       subst h; cases p <;> simp)

/-! ### resolvers -/

theorem sat_fun (r : Range) : (fun v => Range.rs_satisfies r v) = r.satisfies := by
  funext v; exact Range_satisfies r v

theorem v_cmp_fun : (ROrd.cmp : Version → Version → Ordering) = cmpVersion := by
  funext a b; exact v_cmp a b

theorem Range_max_satisfying (r : Range) (vs : List Version) : r.rs_max_satisfying vs = r.maxSatisfying vs := by
  simp [Range.rs_max_satisfying, Range.maxSatisfying, Rust.iter_max, Rust.filter, RFilter.filter, sat_fun, v_cmp_fun]

theorem Range_min_satisfying (r : Range) (vs : List Version) : r.rs_min_satisfying vs = r.minSatisfying vs := by
  simp [Range.rs_min_satisfying, Range.minSatisfying, Rust.iter_min, Rust.filter, RFilter.filter, sat_fun, v_cmp_fun]

theorem Range_min_version (r : Range) : r.rs_min_version = r.minVersion := by
  have : (fun s : BoundSet => s.rs_min_version) = BoundSet.minVersion := by funext s; exact BoundSet_min_version s
  simp [Range.rs_min_version, Range.minVersion, Rust.iter_min, Rust.filter_map, this, v_cmp_fun]

theorem Version_satisfies (v : Version) (r : Range) : v.rs_satisfies r = r.satisfies v := Range_satisfies r v

end Semver.GenEquiv
