import SemverProofs.GenEquiv.Range
/-!
# The desugaring tables extracted from the range parser are the model's tables

The closures inside `primitive()`, `partial()`, `tilde()`, `caret()`, `range()` and `bound_sets()`
(`src/range.rs`) — the `match` expressions that turn an operator and a partial version into a bound set,
and the AND-fold — against `primitiveSet`, `partialSet`, `tildeSet`, `caretSet`, `foldSets` of the model.
-/
namespace Semver.GenEquiv
open Semver Rust Pred Bound

theorem Partial_into (p : Partial) : Version.rs_from_Partial p = p.toVersion := rfl
theorem into_partial (p : Partial) : (Rust.into p : Version) = p.toVersion := rfl
theorem into3 (a b c : Nat) : (Rust.into (a, b, c) : Version) = Version.mk3 a b c := rfl
theorem into4 (a b c d : Nat) : (Rust.into (a, b, c, d) : Version) = Version.mk4 a b c d := rfl

theorem primitive_table (op : Operation) (p : Partial) : Semver.Gen.primitive_table (op, p) = primitiveSet op p := by
  obtain ⟨ma, mi, pa, pre, build⟩ := p
  cases op <;> cases ma <;> cases mi <;> cases pa <;>
    simp [Semver.Gen.primitive_table, primitiveSet, into3, into4, Version.mk3, Version.mk4, Rust.unwrap_or, Rust.is_some, Rust.is_none, Rust.and, Rust.map_or, Rust.map, RMap.map, Rust.flatten, RFlatten.flatten, into_partial, BoundSet_at_least, BoundSet_at_most,
      BoundSet_exact, BoundSet_new, zero0, Rust.unwrap_or, Partial.toVersion, Version.mk3, Version.mk4]

theorem partial_table (p : Partial) : Semver.Gen.partial_table p = partialSet p := by
  obtain ⟨ma, mi, pa, pre, build⟩ := p
  cases ma <;> cases mi <;> cases pa <;>
    simp [Semver.Gen.partial_table, partialSet, into3, into4, Version.mk3, Version.mk4, Rust.unwrap_or, Rust.is_some, Rust.is_none, Rust.and, Rust.map_or, Rust.map, RMap.map, Rust.flatten, RFlatten.flatten, into_partial, BoundSet_at_least, BoundSet_exact,
      BoundSet_new, Partial.toVersion, Version.mk3, Version.mk4]

theorem tilde_table (gt : Option (List Char)) (p : Partial) :
    Semver.Gen.tilde_table (gt, p) = tildeSet gt.isSome p := by
  obtain ⟨ma, mi, pa, pre, build⟩ := p
  cases gt <;> cases ma <;> cases mi <;> cases pa <;>
    simp [Semver.Gen.tilde_table, tildeSet, into3, into4, Version.mk3, Version.mk4, Rust.unwrap_or, Rust.is_some, Rust.is_none, Rust.and, Rust.map_or, Rust.map, RMap.map, Rust.flatten, RFlatten.flatten, BoundSet_at_least, BoundSet_new, Rust.unwrap_or,
      Version.mk3, Version.mk4]

theorem caret_table (p : Partial) : Semver.Gen.caret_table p = caretSet p := by
  obtain ⟨ma, mi, pa, pre, build⟩ := p
  rcases ma with _ | (_ | ma) <;> rcases mi with _ | (_ | mi) <;> cases pa <;>
    simp [Semver.Gen.caret_table, caretSet, into3, into4, Version.mk3, Version.mk4, Rust.unwrap_or, Rust.is_some, Rust.is_none, Rust.and, Rust.map_or, Rust.map, RMap.map, Rust.flatten, RFlatten.flatten, BoundSet_at_least, BoundSet_at_most, BoundSet_new,
      Version.mk3, Version.mk4]

theorem foldl_none (l : List BoundSet) :
    l.foldl (fun acc b => acc.bind (fun (x : BoundSet) => x.intersect b)) none = none := by
  induction l with
  | nil => rfl
  | cons _ _ ih => simpa using ih

theorem try_fold_eq (l : List BoundSet) (init : BoundSet) :
    Rust.try_fold_option l init (fun acc bs => acc.rs_intersect bs) =
      l.foldl (fun acc b => acc.bind (fun (x : BoundSet) => x.intersect b)) (some init) := by
  induction l generalizing init with
  | nil => rfl
  | cons x xs ih =>
    simp only [Rust.try_fold_option, List.foldl_cons, Option.bind_some]
    rw [BoundSet_intersect]
    cases h : init.intersect x with
    | some b => exact ih b
    | none => simp [foldl_none]

theorem range_fold (bs : List (Option BoundSet)) : Semver.Gen.range_fold bs = foldSets bs := by
  unfold Semver.Gen.range_fold foldSets
  simp only [id_run, id_pure, Rust.flatten, RFlatten.flatten, Rust.next]
  cases h : bs.filterMap id with
  | nil => first | rfl | simp [Rust.map_or_else, Rust.and_then, Rust.map_or, Rust.unwrap_or, Rust.map, RMap.map]
  | cons first rest =>
    simp only [try_fold_eq, Rust.collect, RCollect.collect, Rust.map_or_else, Rust.and_then, Rust.map_or, Rust.unwrap_or,
      Rust.map, RMap.map]
    cases rest.foldl (fun acc b => acc.bind (fun (x : BoundSet) => x.intersect b)) (some first) <;> rfl

theorem bound_sets_flatten (sets : List (List BoundSet)) : Semver.Gen.bound_sets_flatten sets = sets.flatten := rfl

/-! ### `Display for Range` -/

theorem bs_display (s : BoundSet) (r : List Char) (h : s.render = some r) : Rust.display s = r := BoundSet_fmt s r h

theorem range_fmt_loop (n : Nat) (l : Range) (f r : List Char) (h : Range.render l = some r) :
    (enumerateFrom n l).foldl (fun s (x : Nat × BoundSet) =>
      (if Rust.gt x.1 0 = true then s ++ ['|', '|'] else s) ++ Rust.display x.2) f =
      f ++ (if n = 0 ∨ l.isEmpty then [] else ['|', '|']) ++ r := by
  induction l generalizing n f r with
  | nil => simp [Range.render] at h; simp [enumerateFrom, ← h]
  | cons s t ih =>
    have hgt : Rust.gt n 0 = decide (n ≠ 0) := by
      simp only [Rust.gt, ROrd.cmp]; rw [Bool.eq_iff_iff]; simp [Nat.compare_eq_gt]; omega
    cases t with
    | nil =>
      simp only [Range.render] at h
      simp only [enumerateFrom, List.foldl_cons, List.foldl_nil, bs_display s r h, hgt]
      by_cases hn : n = 0 <;> simp [hn]
    | cons t1 t2 =>
      simp only [Range.render] at h
      cases hs : s.render with
      | none => simp [hs] at h
      | some a =>
        cases ht : Range.render (t1 :: t2) with
        | none => simp [hs, ht] at h
        | some b =>
          simp only [hs, ht, Option.some.injEq] at h
          simp only [enumerateFrom, List.foldl_cons] at ih ⊢
          rw [ih (n + 1) _ b ht]
          simp only [bs_display s a hs, hgt, ← h]
          by_cases hn : n = 0 <;> simp [hn]

/-- the extracted `Display for Range` writes what the model renders (where the model renders at all) -/
theorem Range_fmt (l : Range) (r : List Char) (h : Range.render l = some r) : Range.rs_fmt l = r := by
  unfold Range.rs_fmt
  simp only [id_run, id_bind, id_pure]
  rw [forIn_fold (g := fun (x : Nat × BoundSet) s => (if Rust.gt x.1 0 = true then s ++ ['|', '|'] else s) ++ Rust.display x.2)]
  · rw [Rust.enumerate, range_fmt_loop 0 l [] r h]; simp
  · intro x s; obtain ⟨i, range⟩ := x; simp only; split <;> rfl

end Semver.GenEquiv
