import SemverProofs.GenEquiv.Version
import SemverModel.Progress
/-!
# The parsers extracted from `src/lib.rs` are the model's parsers

`number`, `identifier`, `pre_release`, `build`, `extras`, `version_core`, `version`: the combinator
expressions of the crate, given their meaning by `SemverGen/Winnow.lean`, against the direct
recursive definitions of `SemverModel/VersionParse.lean` — value, remaining input and every field
of the error (position, context, kind).
-/
namespace Semver.GenEquiv
open Semver Rust Winnow

@[simp] theorem bind_ok {α β : Type} (p : Parser α) (f : α → Parser β) (s : List Char) (a : α) (r : List Char)
    (h : p s = .ok a r) : (p >>= f) s = f a r := by
  show (match p s with | .ok a r => f a r | .err e => .err e) = _
  rw [h]

theorem bind_err {α β : Type} (p : Parser α) (f : α → Parser β) (s : List Char) (e : PErr)
    (h : p s = .err e) : (p >>= f) s = .err e := by
  show (match p s with | .ok a r => f a r | .err e => .err e) = _
  rw [h]

theorem bind_def {α β : Type} (p : Parser α) (f : α → Parser β) (s : List Char) :
    (p >>= f) s = match p s with | .ok a r => f a r | .err e => .err e := rfl

theorem pure_def {α : Type} (a : α) (s : List Char) : (pure a : Parser α) s = .ok a s := rfl

/-! ### the crate's error type in winnow's error protocol: what `SemverGen/Winnow.lean` assumes of it -/

/-- `ParserError::from_error_kind`: the error of a failing primitive -/
theorem err_from_error_kind (s : List Char) (k : Unit) : PErr.rs_from_error_kind s k = Winnow.errAt s := rfl
/-- `ParserError::append` (used by `alt`, `repeat_till`): the input is replaced, context and kind are kept -/
theorem err_append (e : PErr) (s : List Char) (a b : Unit) : e.rs_append s a b = { e with rest := s } := rfl
/-- `AddContext::add_context` (used by `.context(..)`): the context is replaced, input and kind are kept -/
theorem err_add_context (e : PErr) (s : List Char) (a : Unit) (c : String) : e.rs_add_context s a c = e.withCtx c := rfl
/-- `FromExternalError::from_external_error` (used by `try_map`): the closure's error as it is -/
theorem err_from_external_error (s : List Char) (k : Unit) (e : PErr) : PErr.rs_from_external_error s k e = e := rfl

theorem isDecDigit_eq : Winnow.isDecDigit = isDigit := rfl
theorem isSpace_eq : Winnow.isSpace = isBlank := rfl

/-! ### number -/

theorem span_take (p : Char → Bool) (s : List Char) :
    s.take (s.length - (span p s).2.length) = (span p s).1 := by
  induction s with
  | nil => simp [span]
  | cons c cs ih =>
    simp only [span]
    split
    · simp only [List.length_cons]
      have hl := span_snd_length_le p cs
      rw [show cs.length + 1 - (span p cs).2.length = (cs.length - (span p cs).2.length) + 1 by omega]
      simp [ih]
    · simp

theorem span_all (p : Char → Bool) (s : List Char) : (span p s).1.all p = true := by
  induction s with
  | nil => simp [span]
  | cons c cs ih => simp only [span]; split <;> simp_all

theorem str_parse_digits (t : List Char) (hne : t ≠ []) (hd : t.all isDigit = true) :
    str_parse_u64 t = if valOf t < U64 then .ok (valOf t) else .error .posOverflow := by
  cases t with
  | nil => exact absurd rfl hne
  | cons c cs =>
    have hc : isDigit c = true := by simp [List.all_cons] at hd; exact hd.1
    have hplus : (c == '+') = false := by
      cases h : (c == '+') with
      | false => rfl
      | true => simp at h; subst h; exact absurd hc (by decide)
    simp only [str_parse_u64, hplus, Bool.false_eq_true, ↓reduceIte, List.isEmpty_cons, hd, Bool.not_true]

theorem number_eq (s : List Char) : Semver.Gen.number s = number s := by
  unfold Semver.Gen.number number
  simp only [bind_def, getInput, Winnow.context, Winnow.tryMap, Winnow.take, Winnow.digit1, Winnow.takeWhile1, isDecDigit_eq]
  cases he : (span isDigit s).1.isEmpty with
  | true => simp [he, errAt, PErr.withCtx]
  | false =>
    have hne : (span isDigit s).1 ≠ [] := by intro h; simp [h] at he
    simp only [he, Bool.false_eq_true, ↓reduceIte, span_take]
    unfold Semver.Gen.number_check
    simp only [str_parse_digits _ hne (span_all isDigit s), Rust.map_err]
    by_cases h1 : valOf (span isDigit s).1 < U64
    · have h1' : ¬ U64 ≤ valOf (span isDigit s).1 := by omega
      simp only [h1, ↓reduceIte, h1']
      have hgt : Rust.gt (valOf (span isDigit s).1) MAX_SAFE_INTEGER = decide (MAX_SAFE_INTEGER < valOf (span isDigit s).1) := by
        simp only [Rust.gt, ROrd.cmp]; rw [Bool.eq_iff_iff]; simp [Nat.compare_eq_gt]
      by_cases h2 : MAX_SAFE_INTEGER < valOf (span isDigit s).1
      · simp [bind, Except.bind, hgt, h2, throw, throwThe, MonadExceptOf.throw, PErr.withCtx]
      · simp [bind, Except.bind, hgt, h2, pure, Except.pure]
    · have h1' : U64 ≤ valOf (span isDigit s).1 := by omega
      simp [h1, h1', bind, Except.bind, PErr.withCtx, parse_int_error_kind]

/-! ### identifier -/

theorem idchar_eq : (fun x => (Rust.is_ascii_alphanumeric x || REq.eq x '-')) = isIdChar := by
  funext c
  simp only [Rust.is_ascii_alphanumeric, isIdChar, isDigit, isAlpha, REq.eq, Bool.or_assoc]

theorem idchar_not_plus (c : Char) (h : isIdChar c = true) : (c == '+') = false := by
  cases hc : (c == '+') with
  | false => rfl
  | true => simp at hc; subst hc; exact absurd h (by decide)

theorem str_parse_idchars (t : List Char) (hne : t ≠ []) (hd : t.all isIdChar = true) :
    str_parse_u64 t = if t.all isDigit then (if valOf t < U64 then .ok (valOf t) else .error .posOverflow)
      else .error .invalidDigit := by
  cases t with
  | nil => exact absurd rfl hne
  | cons c cs =>
    have hc : isIdChar c = true := by simp [List.all_cons] at hd; exact hd.1
    simp only [str_parse_u64, idchar_not_plus c hc, Bool.false_eq_true, ↓reduceIte, List.isEmpty_cons]
    cases (c :: cs).all isDigit <;> simp

theorem classify_eq (t : List Char) (hne : t ≠ []) (hd : t.all isIdChar = true) :
    Semver.Gen.identifier_classify t = classify t := by
  unfold Semver.Gen.identifier_classify classify
  rw [str_parse_idchars t hne hd]
  cases h1 : t.all isDigit
  · simp [Rust.map, RMap.map, Rust.unwrap_or_else]
  · by_cases h2 : valOf t < U64 <;> simp [h2, Rust.map, RMap.map, Rust.unwrap_or_else]

theorem identifier_eq (s : List Char) : Semver.Gen.identifier s = identifier s := by
  unfold Semver.Gen.identifier identifier
  simp only [Winnow.context, Winnow.map, Winnow.takeWhile1, idchar_eq]
  cases he : (span isIdChar s).1.isEmpty with
  | true => simp [errAt, PErr.withCtx]
  | false =>
    have hne : (span isIdChar s).1 ≠ [] := by intro h; simp [h] at he
    simp [classify_eq _ hne (span_all isIdChar s)]

theorem literal_char (c : Char) (s : List Char) :
    Winnow.literal [c] s = match s with
      | d :: t => if c == d then .ok [c] t else .err (errAt s)
      | [] => .err (errAt s) := by
  cases s with
  | nil => simp [Winnow.literal, Winnow.isPrefix]
  | cons d t => simp [Winnow.literal, Winnow.isPrefix]

/-- the loop of `separated(1.., identifier, ".")` is `identTail` -/
theorem ident_loop (n : Nat) (s : List Char) (h : s.length ≤ n) :
    Winnow.separatedLoop Semver.Gen.identifier (Winnow.literal ['.']) (n + 1) s =
      .ok (identTail n s).1 (identTail n s).2 := by
  induction n generalizing s with
  | zero =>
    have : s = [] := by cases s <;> simp_all
    subst this
    simp [Winnow.separatedLoop, literal_char, identTail]
  | succ n ih =>
    rw [Winnow.separatedLoop, literal_char]
    cases s with
    | nil => simp [identTail]
    | cons d t =>
      by_cases hd : d = '.'
      · subst hd
        simp only [beq_self_eq_true, ↓reduceIte, List.length_cons]
        rw [identifier_eq]
        cases hi : identifier t with
        | err e => simp [identTail, hi]
        | ok a rest =>
          have hl := identifier_length hi
          have hrest : rest.length ≤ n := by simp at h; omega
          simp only [ih rest hrest, identTail, hi]
          simp
      · have : ('.' == d) = false := by simp; exact fun h => hd h.symm
        simp only [this, Bool.false_eq_true, ↓reduceIte]
        rw [identTail]
        · intro s' heq; cases heq; exact hd rfl

theorem ident_list (s : List Char) :
    Winnow.separated1 Semver.Gen.identifier (Winnow.literal ['.']) s = identList s := by
  unfold Winnow.separated1 identList
  rw [identifier_eq]
  cases hi : identifier s with
  | err e => rfl
  | ok a rest =>
    simp only [ident_loop (rest.length) rest (Nat.le_refl _)]

theorem opt_hyphen (s : List Char) : Winnow.opt (Winnow.literal ['-']) s = .ok (if s.head? = some '-' then some ['-'] else none) (stripHyphen s) := by
  cases s with
  | nil => simp [Winnow.opt, literal_char, stripHyphen]
  | cons d t =>
    by_cases hd : d = '-'
    · subst hd; simp [Winnow.opt, literal_char, stripHyphen]
    · have : ('-' == d) = false := by simp; exact fun h => hd h.symm
      have h2 : ¬ (some d = some '-') := by simp [hd]
      simp only [Winnow.opt, literal_char, this, Bool.false_eq_true, ↓reduceIte, List.head?_cons, h2]
      congr 1
      unfold stripHyphen
      split
      · rename_i t' heq; cases heq; exact absurd rfl hd
      · rfl

theorem pre_release_eq (s : List Char) : Semver.Gen.pre_release s = preRelease s := by
  unfold Semver.Gen.pre_release preRelease
  simp only [Winnow.context, Winnow.preceded, bind_def, opt_hyphen, ident_list]
  cases identList (stripHyphen s) <;> rfl

theorem build_eq (s : List Char) : Semver.Gen.build s = buildMeta s := by
  unfold Semver.Gen.build buildMeta
  simp only [Winnow.context, Winnow.preceded, bind_def, literal_char]
  cases s with
  | nil => simp [errAt, PErr.withCtx]
  | cons d t =>
    by_cases hd : d = '+'
    · subst hd
      simp only [beq_self_eq_true, ↓reduceIte, ident_list]
      cases identList t <;> rfl
    · have : ('+' == d) = false := by simp; exact fun h => hd h.symm
      simp only [this, Bool.false_eq_true, ↓reduceIte, errAt, PErr.withCtx]
      split
      · rename_i t' heq; cases heq; exact absurd rfl hd
      · rfl

theorem extras_eq (s : List Char) : Semver.Gen.extras s = .ok (extras s).1 (extras s).2 := by
  unfold Semver.Gen.extras extras
  simp only [Winnow.map, Winnow.opt, Winnow.alt, Winnow.altFrom, Winnow.seq2, bind_def, pure_def, pre_release_eq, build_eq]
  cases hp : preRelease s with
  | ok p r1 =>
    cases hb : buildMeta r1 with
    | ok b r2 => simp [hb, Semver.Gen.Extras.rs_values]
    | err e => simp [hp, hb, Semver.Gen.Extras.rs_values]
  | err e =>
    cases hb : buildMeta s with
    | ok b r => simp [hp, hb, Semver.Gen.Extras.rs_values]
    | err e2 => simp [hp, hb]; rfl

theorem dot_cons_ne (d : Char) (t : List Char) (h : d ≠ '.') : dot (d :: t) = .err ⟨d :: t, none, none⟩ := by
  unfold dot
  split
  · rename_i t' heq; cases heq; exact absurd rfl h
  · rfl

theorem literal_dot (s : List Char) :
    Winnow.literal ['.'] s = match dot s with
      | .ok _ r => .ok ['.'] r
      | .err e => .err e := by
  rw [literal_char]
  cases s with
  | nil => rfl
  | cons d t =>
    by_cases h : d = '.'
    · subst h; simp [dot]
    · have : ('.' == d) = false := by simp; exact fun h' => h h'.symm
      simp only [this, Bool.false_eq_true, ↓reduceIte, errAt, dot_cons_ne d t h]

theorem version_core_eq (s : List Char) : Semver.Gen.version_core s = versionCore s := by
  unfold Semver.Gen.version_core versionCore
  simp only [Winnow.context, Winnow.map, Winnow.seq5, Winnow.preceded, Winnow.terminated, bind_def, pure_def, number_eq, literal_dot]
  cases number s with
  | err e => rfl
  | ok a r1 =>
    simp only
    cases dot r1 with
    | err e => rfl
    | ok u r2 =>
      simp only
      cases number r2 with
      | err e => rfl
      | ok b r3 =>
        simp only
        cases dot r3 with
        | err e => rfl
        | ok u2 r4 =>
          simp only
          cases number r4 <;> rfl

theorem space0_eq (s : List Char) : Winnow.space0 s = .ok (span isBlank s).1 (dropBlanks s) := rfl

theorem opt_vV (s : List Char) :
    ∃ x, Winnow.opt (Winnow.alt [Winnow.literal ['v'], Winnow.literal ['V']]) s = .ok x (stripVV s) := by
  cases s with
  | nil => exact ⟨none, by simp [Winnow.opt, Winnow.alt, Winnow.altFrom, literal_char, stripVV]⟩
  | cons d t =>
    by_cases h1 : d = 'v'
    · subst h1; exact ⟨some ['v'], by simp [Winnow.opt, Winnow.alt, Winnow.altFrom, literal_char, stripVV]⟩
    · by_cases h2 : d = 'V'
      · subst h2; exact ⟨some ['V'], by simp [Winnow.opt, Winnow.alt, Winnow.altFrom, literal_char, stripVV]⟩
      · refine ⟨none, ?_⟩
        have e1 : ('v' == d) = false := by simp; exact fun h => h1 h.symm
        have e2 : ('V' == d) = false := by simp; exact fun h => h2 h.symm
        simp only [Winnow.opt, Winnow.alt, Winnow.altFrom, literal_char, e1, e2, Bool.false_eq_true, ↓reduceIte]
        congr 1
        unfold stripVV
        split
        · rename_i t' heq; cases heq; exact absurd rfl h1
        · rename_i t' heq; cases heq; exact absurd rfl h2
        · rfl

theorem version_eq (s : List Char) : Semver.Gen.version s = versionP s := by
  unfold Semver.Gen.version versionP
  obtain ⟨x, hx⟩ := opt_vV s
  simp only [Winnow.context, Winnow.map, Winnow.seq6, Winnow.seq2, Winnow.preceded, Winnow.terminated, bind_def, pure_def, hx,
    space0_eq, version_core_eq, extras_eq]
  cases versionCore (dropBlanks (stripVV s)) with
  | err e => rfl
  | ok abc r =>
    obtain ⟨a, b, c⟩ := abc
    simp only
    cases hr : dropBlanks (extras r).2 with
    | nil => simp [Winnow.eof]
    | cons d t => simp [Winnow.eof, errAt, PErr.withCtx]

end Semver.GenEquiv
