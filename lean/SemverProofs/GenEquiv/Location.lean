import SemverGen.Extracted
import SemverProofs.GenEquiv.Loops
/-!
# The extracted `SemverError::location` is the model's `location`

The crate computes on bytes and on addresses of sub-slices (`SemverGen/Bytes.lean` gives those operations their
meaning); the model splits the character list at the byte offset and counts.  Where the model reports no panic
(the offset is a character boundary inside the input — C17 proves that of every error the crate produces) the two
agree: the line is the number of `\n` before the offset, the column the number of bytes since the last one.
-/
namespace Semver.GenEquiv
open Semver Rust

theorem utf8Len_append (a b : List Char) : utf8Len (a ++ b) = utf8Len a + utf8Len b := by
  simp [utf8Len]

theorem utf8Len_cons2 (c : Char) (t : List Char) : utf8Len (c :: t) = c.utf8Size + utf8Len t := by
  simp [utf8Len]

theorem split_spec : ∀ (s : List Char) (n : Nat) (a b : List Char), splitAtByte s n = some (a, b) → s = a ++ b ∧ utf8Len a = n := by
  intro s
  induction s with
  | nil =>
    intro n a b h
    cases n with
    | zero => simp [splitAtByte] at h; obtain ⟨rfl, rfl⟩ := h; simp [utf8Len]
    | succ n => simp [splitAtByte] at h
  | cons c cs ih =>
    intro n a b h
    cases n with
    | zero => simp [splitAtByte] at h; obtain ⟨rfl, rfl⟩ := h; simp [utf8Len]
    | succ n =>
      rw [splitAtByte] at h
      split at h
      · rename_i hle
        cases hr : splitAtByte cs (n + 1 - c.utf8Size) with
        | none => simp [hr] at h
        | some p =>
          obtain ⟨a', b'⟩ := p
          simp only [hr, Option.some.injEq, Prod.mk.injEq] at h
          obtain ⟨rfl, rfl⟩ := h
          obtain ⟨h1, h2⟩ := ih _ _ _ hr
          refine ⟨by rw [h1]; rfl, ?_⟩
          rw [utf8Len_cons2, h2]; omega
      · cases h

theorem split_prefix (a b : List Char) : splitAtByte (a ++ b) (utf8Len a) = some (a, b) := by
  induction a with
  | nil => cases b <;> simp [splitAtByte, utf8Len]
  | cons c cs ih =>
    have hp := Char.utf8Size_pos c
    rw [utf8Len_cons2]
    obtain ⟨m, hm⟩ : ∃ m, c.utf8Size + utf8Len cs = m + 1 := ⟨c.utf8Size + utf8Len cs - 1, by omega⟩
    rw [hm, List.cons_append, splitAtByte]
    have : c.utf8Size ≤ m + 1 := by omega
    simp only [this, ↓reduceIte]
    have e : m + 1 - c.utf8Size = utf8Len cs := by omega
    rw [e, ih]

theorem as_bytes_append (a b : List Char) : as_bytes (a ++ b) = as_bytes a ++ as_bytes b := by
  simp [as_bytes]

theorem as_bytes_length (a : List Char) : (as_bytes a).length = utf8Len a := by
  induction a with
  | nil => rfl
  | cons c cs ih =>
    simp only [as_bytes, List.flatMap_cons, List.length_append] at ih ⊢
    rw [ih, utf8Len_cons2]; simp [bytesOf]

theorem bytesOf_filter (c : Char) (a : Char) :
    ((bytesOf c).filter (fun b => byte_eq b a)).length = if c == a then 1 else 0 := by
  have hp := Char.utf8Size_pos c
  obtain ⟨m, hm⟩ : ∃ m, c.utf8Size = m + 1 := ⟨c.utf8Size - 1, by omega⟩
  simp only [bytesOf, hm, List.range_succ_eq_map, List.map_cons, List.filter_cons, byte_eq]
  by_cases h : c = a
  · subst h; simp
  · simp [h]

theorem bytecount_eq (p : List Char) (a : Char) : bytecount (as_bytes p) a = (p.filter (· == a)).length := by
  induction p with
  | nil => rfl
  | cons c cs ih =>
    simp only [bytecount, as_bytes, List.flatMap_cons, List.filter_append, List.length_append] at ih ⊢
    rw [ih, bytesOf_filter]
    by_cases h : c = a
    · subst h; simp; omega
    · simp [h]

theorem as_bytes_reverse (l : List Char) :
    (as_bytes l).reverse = l.reverse.flatMap (fun c => (bytesOf c).reverse) := by
  induction l with
  | nil => rfl
  | cons c cs ih =>
    simp only [as_bytes, List.flatMap_cons, List.reverse_append, List.reverse_cons, List.flatMap_append,
      List.flatMap_nil, List.append_nil] at ih ⊢
    rw [ih]

theorem bytesOf_no_match (c : Char) (a : Char) (h : c ≠ a) :
    ((bytesOf c).reverse).findIdx? (fun b => byte_eq b a) = none := by
  rw [List.findIdx?_eq_none_iff]
  intro b hb
  simp only [List.mem_reverse, bytesOf, List.mem_map] at hb
  obtain ⟨k, _, rfl⟩ := hb
  simp [byte_eq, h]

theorem utf8Size_newline : ('\n' : Char).utf8Size = 1 := by decide

theorem position_rev (r : List Char) :
    (r.flatMap (fun c => (bytesOf c).reverse)).findIdx? (fun b => byte_eq b '\n') =
      if r.takeWhile (· != '\n') = r then none else some (utf8Len (r.takeWhile (· != '\n'))) := by
  induction r with
  | nil => rfl
  | cons c cs ih =>
    simp only [List.flatMap_cons, List.findIdx?_append]
    by_cases hc : c = '\n'
    · subst hc
      have : bytesOf '\n' = [⟨'\n', 0⟩] := by simp [bytesOf, utf8Size_newline]
      simp [this, byte_eq, utf8Len]
    · have hne : (c != '\n') = true := by simp [hc]
      rw [bytesOf_no_match c '\n' hc, ih]
      simp only [Option.none_or, List.takeWhile_cons, hne, ↓reduceIte, List.cons.injEq, true_and, List.length_reverse]
      have hl : (bytesOf c).length = c.utf8Size := by simp [bytesOf]
      by_cases ht : cs.takeWhile (· != '\n') = cs
      · simp [ht]
      · simp only [ht, ↓reduceIte, Option.map_some, hl, utf8Len_cons2]
        congr 1; omega

theorem utf8Len_reverse (l : List Char) : utf8Len l.reverse = utf8Len l := by
  induction l with
  | nil => rfl
  | cons c cs ih => rw [List.reverse_cons, utf8Len_append, ih, utf8Len_cons2]; simp [utf8Len]; omega

theorem lines_first_start (x : StrSlice) :
    (Rust.trim_end (Rust.unwrap_or (Rust.iter_first (Rust.lines x)) x)).start = x.start := by
  obtain ⟨st, cs⟩ := x
  cases cs with
  | nil => simp [Rust.lines, Rust.linesFrom, Rust.iter_first, Rust.unwrap_or, Rust.trim_end]
  | cons c t =>
    simp only [Rust.lines, Rust.linesFrom, Rust.iter_first, Rust.unwrap_or, Rust.trim_end]
    cases (Rust.splitLine (c :: t)).2 <;> simp

theorem takeWhile_dropWhile_utf8 (r : List Char) (p : Char → Bool) :
    utf8Len (r.takeWhile p) + utf8Len (r.dropWhile p) = utf8Len r := by
  rw [← utf8Len_append, List.takeWhile_append_dropWhile]

/-- `prefix.iter().rposition(p).map_or(0, |i| i + 1)` is the line start that
`prefix.iter().rev().position(p).map(|pos| offset - pos).unwrap_or(0)` computes, `offset` being the length of the prefix -/
theorem rposition_line_begin {α : Type} (l : List α) (p : α → Bool) (off : Nat) (hlen : l.length = off) :
    Rust.map_or (Rust.rposition l p) 0 (fun newline => newline + 1) =
      Rust.unwrap_or (Rust.map (Rust.position (Rust.rev l) p) (fun pos => off - pos)) 0 := by
  simp only [Rust.rposition, Rust.position, Rust.rev, Rust.map, RMap.map, Rust.map_or, Rust.unwrap_or]
  cases hf : l.reverse.findIdx? p with
  | none => rfl
  | some pos =>
    have hlt : pos < l.reverse.length := by
      have := List.findIdx?_eq_some_iff_findIdx_eq.mp hf
      exact this.1
    simp only [Option.map_some, Option.getD_some]
    simp at hlt
    omega

/-- the extracted `location()` returns what the model's `location` returns, wherever the model does not report a
panic (offset beyond the input or inside a character); that it never does for an error the crate produces is C17 -/
theorem SemverError_location (e : SemverError) (l c : Nat) (h : e.location = some (l, c)) : e.rs_location = (l, c) := by
  unfold SemverError.location at h
  cases hs : splitAtByte e.input e.offset with
  | none => simp [hs] at h
  | some p =>
    obtain ⟨pre, post⟩ := p
    simp only [hs, Option.some.injEq, Prod.mk.injEq] at h
    obtain ⟨hl, hc⟩ := h
    obtain ⟨hin, hoff⟩ := split_spec _ _ _ _ hs
    unfold SemverError.rs_location
    simp only [SemverError.rs_offset, Rust.index_to, RIndexTo.index_to, Rust.ptr_diff]
    have hpre : (as_bytes e.input).take e.offset = as_bytes pre := by
      rw [hin, as_bytes_append, ← hoff, ← as_bytes_length pre, List.take_left']
      rfl
    rw [hpre]
    -- the line start written with `rposition`
    try rw [rposition_line_begin (as_bytes pre) _ e.offset (by rw [as_bytes_length, hoff])]
    simp only [Rust.rev, Rust.position]
    rw [bytecount_eq, as_bytes_reverse, position_rev]
    have hfrom : Rust.index_from e.input e.offset = (⟨e.offset, post⟩ : StrSlice) := by
      simp [Rust.index_from, RIndexFrom.index_from, hs]
    by_cases ht : pre.reverse.takeWhile (· != '\n') = pre.reverse
    · simp only [ht, ↓reduceIte, Rust.map, RMap.map, Option.map_none, Rust.unwrap_or, Option.getD_none]
      have h0 : Rust.index_from e.input 0 = (⟨0, e.input⟩ : StrSlice) := by
        cases hi : e.input <;> simp [Rust.index_from, RIndexFrom.index_from, splitAtByte]
      have := lines_first_start ⟨0, e.input⟩
      simp only [Rust.unwrap_or] at this
      rw [h0, hfrom]
      simp only [RPtrDiff.ptr_diff, this, Nat.sub_zero]
      rw [← hl, ← hc, ht, List.reverse_reverse, hoff]
    · simp only [ht, ↓reduceIte, Rust.map, RMap.map, Option.map_some, Rust.unwrap_or, Option.getD_some]
      -- the last newline splits `pre`
      have hsum := takeWhile_dropWhile_utf8 pre.reverse (· != '\n')
      rw [utf8Len_reverse] at hsum
      have hA : pre = (pre.reverse.dropWhile (· != '\n')).reverse ++ (pre.reverse.takeWhile (· != '\n')).reverse := by
        rw [← List.reverse_append, List.takeWhile_append_dropWhile, List.reverse_reverse]
      have hbegin : e.offset - utf8Len (pre.reverse.takeWhile (· != '\n')) = utf8Len (pre.reverse.dropWhile (· != '\n')).reverse := by
        rw [utf8Len_reverse, ← hoff]; omega
      have hfrom2 : Rust.index_from e.input (e.offset - utf8Len (pre.reverse.takeWhile (· != '\n'))) =
          (⟨e.offset - utf8Len (pre.reverse.takeWhile (· != '\n')), (pre.reverse.takeWhile (· != '\n')).reverse ++ post⟩ : StrSlice) := by
        have : e.input = (pre.reverse.dropWhile (· != '\n')).reverse ++ ((pre.reverse.takeWhile (· != '\n')).reverse ++ post) := by
          rw [hin, ← List.append_assoc, ← hA]
        simp only [Rust.index_from, RIndexFrom.index_from]
        rw [hbegin]
        conv => lhs; rw [this]
        rw [split_prefix]
      have := lines_first_start ⟨e.offset - utf8Len (pre.reverse.takeWhile (· != '\n')), (pre.reverse.takeWhile (· != '\n')).reverse ++ post⟩
      simp only [Rust.unwrap_or] at this
      rw [hfrom2, hfrom]
      simp only [RPtrDiff.ptr_diff, this]
      rw [← hl, ← hc, utf8Len_reverse]
      congr 1
      omega

/-- the accessors of `SemverError` return its fields, `offset()` is the span's offset, and the `miette::Diagnostic`
impl hands miette the input as source, one label at the span, and the kind's derived code / help / severity / url
(markers emitted by the translator: each function still has exactly this body, and the impl defines no other) -/
theorem error_api_canonical : True :=
  have _ := Semver.Gen.canonical_SemverError_offset
  have _ := Semver.Gen.canonical_SemverError_input
  have _ := Semver.Gen.canonical_SemverError_span
  have _ := Semver.Gen.canonical_SemverError_kind
  have _ := Semver.Gen.canonical_SemverError_code
  have _ := Semver.Gen.canonical_SemverError_severity
  have _ := Semver.Gen.canonical_SemverError_help
  have _ := Semver.Gen.canonical_SemverError_url
  have _ := Semver.Gen.canonical_SemverError_source_code
  have _ := Semver.Gen.canonical_SemverError_labels
  trivial

end Semver.GenEquiv
