import SemverGen.RustPrelude
/-!
# `for` loops of `Id.run do` blocks as folds

The translator renders a Rust `for` loop as Lean's `for … in … do`; these lemmas turn the resulting
`forIn` into `List.foldl` (no early exit) or into a search (early `return`).
-/
namespace Semver.GenEquiv

@[simp] theorem id_pure {α : Type} (x : α) : (pure x : Id α) = x := rfl
@[simp] theorem id_bind {α β : Type} (x : Id α) (f : α → Id β) : (x >>= f) = f x := rfl
@[simp] theorem id_run {α : Type} (x : Id α) : x.run = x := rfl

/-- a loop whose body always continues is a left fold -/
theorem forIn_fold {α σ : Type} (l : List α) (init : σ) (body : α → σ → Id (ForInStep σ)) (g : α → σ → σ)
    (h : ∀ x s, body x s = ForInStep.yield (g x s)) :
    (forIn l init body : Id σ) = l.foldl (fun s x => g x s) init := by
  induction l generalizing init with
  | nil => rfl
  | cons a as ih => rw [List.forIn_cons, h]; exact ih _

/-- a loop that returns `r x` at the first element satisfying `p`, with a state that never changes -/
theorem forIn_find {α ρ : Type} (l : List α) (body : α → Option ρ × Unit → Id (ForInStep (Option ρ × Unit)))
    (p : α → Bool) (r : α → ρ)
    (h : ∀ x s, body x s = if p x then ForInStep.done (some (r x), ()) else ForInStep.yield (none, ())) :
    (forIn l (none, ()) body : Id (Option ρ × Unit)) = ((l.find? p).map r, ()) := by
  induction l with
  | nil => rfl
  | cons a as ih =>
    rw [List.forIn_cons, h]
    by_cases hp : p a
    · simp [hp]
    · simp only [hp, Bool.false_eq_true, ↓reduceIte, List.find?_cons_of_neg, not_false_eq_true]; exact ih

/-- a loop that returns the first `some` of `q`, with a state that never changes -/
theorem forIn_findSome {α ρ : Type} (l : List α) (body : α → Option ρ × Unit → Id (ForInStep (Option ρ × Unit)))
    (q : α → Option ρ)
    (h : ∀ x s, body x s = match q x with
      | some r => ForInStep.done (some r, ())
      | none => ForInStep.yield (none, ())) :
    (forIn l (none, ()) body : Id (Option ρ × Unit)) = (l.findSome? q, ()) := by
  induction l with
  | nil => rfl
  | cons a as ih =>
    rw [List.forIn_cons, h]
    cases hq : q a with
    | some r => simp [List.findSome?_cons, hq]
    | none => simp only [List.findSome?_cons, hq]; exact ih

theorem findSome_any {α : Type} (l : List α) (p : α → Bool) :
    (match l.findSome? (fun x => if p x then some true else none) with
      | some r => r
      | none => false) = l.any p := by
  induction l with
  | nil => rfl
  | cons a as ih =>
    by_cases hp : p a <;> simp [List.findSome?_cons, hp]
    simpa using ih

end Semver.GenEquiv
