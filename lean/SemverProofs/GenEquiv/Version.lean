import SemverGen.Tactics
import SemverGen.Extracted
import SemverProofs.GenEquiv.Loops
/-!
# The definitions extracted from `src/lib.rs` are the model's definitions (versions)

One theorem per extracted function: the mechanical translation of the function's current source text
(`SemverGen/Extracted.lean`, regenerated on every run) computes the same function as the hand-written
model definition the property theorems are about.  A change to the Rust function changes the left-hand
side; the proof below then has to go through for the new text or the check reports the broken tie.
-/
namespace Semver.GenEquiv
open Semver Rust

theorem const_MAX_SAFE_INTEGER : Semver.Gen.MAX_SAFE_INTEGER = Semver.MAX_SAFE_INTEGER := rfl
theorem const_MAX_LENGTH : Semver.Gen.MAX_LENGTH = Semver.MAX_LENGTH := rfl

/-! ### shapes of the data types, canonical `partial_cmp` (markers emitted by the translator) -/

/-- the crate's `Identifier`, `Version`, `VersionDiff` still have the variants and fields of the model's types -/
theorem shapes_version : True :=
  have _ := Semver.Gen.shape_Identifier
  have _ := Semver.Gen.shape_Version
  have _ := Semver.Gen.build_Version
  have _ := Semver.Gen.shape_VersionDiff
  trivial

/-- imports and item names are what the translation takes them to be (marker emitted by the translator) -/
theorem names_as_expected : True := Semver.Gen.names_as_expected

/-- the data types are declared exactly as the translation expects (marker emitted by the translator) -/
theorem declarations_as_expected : True := Semver.Gen.declarations_as_expected

theorem partial_cmp_Version : True := Semver.Gen.partial_cmp_is_cmp_Version

/-! ### std equalities on the model's types -/

theorem listEq_char (a b : List Char) : listEq a b = (a == b) := by
  induction a generalizing b with
  | nil => cases b <;> simp [listEq]
  | cons x xs ih => cases b with
    | nil => simp [listEq]
    | cons y ys => simp [listEq, REq.eq, ih]

theorem Ident_eq (a b : Ident) : Ident.rs_eq a b = (a == b) := by
  cases a <;> cases b <;> simp [Ident.rs_eq, REq.eq, listEq_char] <;> (rw [Bool.eq_iff_iff]; simp)

theorem listEq_ident (a b : List Ident) : listEq a b = (a == b) := by
  induction a generalizing b with
  | nil => cases b <;> simp [listEq]
  | cons x xs ih => cases b with
    | nil => simp [listEq]
    | cons y ys => simp [listEq, REq.eq, ih, Ident_eq]

theorem Ident_cmp (a b : Ident) : Ident.rs_cmp a b = cmpIdent a b := by
  cases a <;> cases b <;> rfl

theorem Ident_fmt (a : Ident) : Ident.rs_fmt a = a.render := by
  cases a <;> simp [Ident.rs_fmt, Ident.render, Id.run, display, RDisplay.fmt]

theorem Version_is_prerelease (v : Version) : v.rs_is_prerelease = v.isPre := rfl

theorem Version_eq (a b : Version) : Version.rs_eq a b = a.beq b := by
  simp [Version.rs_eq, Version.beq, REq.eq, listEq_ident, Bool.and_assoc]

theorem compareLex_ident : ∀ a b : List Ident, List.compareLex Ident.rs_cmp a b = List.compareLex cmpIdent a b := by
  have : Ident.rs_cmp = cmpIdent := by funext a b; exact Ident_cmp a b
  intro a b; rw [this]

theorem vec_len (l : List Ident) : Rust.len l = l.length := rfl

theorem Version_cmp (a b : Version) : Version.rs_cmp a b = cmpVersion a b := by
  unfold Version.rs_cmp cmpVersion
  simp only [compareLex, compareOn, ROrd.cmp, Id.run]
  cases h1 : compare a.major b.major <;> simp [Ordering.then]
  cases h2 : compare a.minor b.minor <;> simp
  cases h3 : compare a.patch b.patch <;> simp
  rcases hp : a.pre with _ | ⟨x, xs⟩ <;> rcases hq : b.pre with _ | ⟨y, ys⟩ <;>
    simp [vec_len, cmpPre, compareLex_ident]

theorem Version_hash (v : Version) : v.rs_hash = v.hashKey := rfl

theorem Version_diff (a b : Version) : Version.rs_diff a b = Version.diff a b := by
  have hc : ROrd.cmp a b = cmpVersion a b := Version_cmp a b
  unfold Version.rs_diff Version.diff
  simp only [hc, Id.run, REq.eq, Rust.ne, Version_is_prerelease]
  cases cmpVersion a b <;> simp <;> (repeat' split) <;> simp_all

theorem VersionDiff_fmt (d : VersionDiff) : d.rs_fmt = d.render.toList := by
  cases d <;> rfl

/-- what the two identifier loops of `Display for Version` append -/
def idsFrom (c : Char) : Nat → List Ident → List Char
  | _, [] => []
  | n, a :: as => (if n = 0 then c else '.') :: (a.render ++ idsFrom c (n + 1) as)

theorem idsFrom_succ (c : Char) (n : Nat) (l : List Ident) : idsFrom c (n + 1) l = idsFrom '.' (n + 1) l := by
  induction l generalizing n with
  | nil => rfl
  | cons a as ih => simp [idsFrom, ih]

theorem idsFrom_dot (n : Nat) (a : Ident) (as : List Ident) :
    a.render ++ idsFrom '.' (n + 1) as = renderIds (a :: as) := by
  induction as generalizing a n with
  | nil => simp [idsFrom, renderIds]
  | cons b bs ih =>
    have := ih (n + 1) b
    simp only [idsFrom, renderIds] at this ⊢
    simp [this]

theorem idsFrom_zero (c : Char) (l : List Ident) :
    idsFrom c 0 l = if l.isEmpty then [] else c :: renderIds l := by
  cases l with
  | nil => rfl
  | cons a as => simp [idsFrom, idsFrom_succ c 0 as, idsFrom_dot]

theorem fmt_loop (c : Char) (n : Nat) (l : List Ident) (f : List Char) :
    (enumerateFrom n l).foldl (fun s (x : Nat × Ident) =>
      (if REq.eq x.1 0 = true then s ++ [c] else s ++ ['.']) ++ display x.2) f = f ++ idsFrom c n l := by
  induction l generalizing n f with
  | nil => simp [enumerateFrom, idsFrom]
  | cons a as ih =>
    simp only [enumerateFrom, List.foldl_cons]
    rw [ih]
    by_cases h : n = 0 <;> simp [h, idsFrom, display, RDisplay.fmt, Ident_fmt, REq.eq]

/-- the identifier loop with the separator chosen by an `if` expression and the lead given as a string (the form the
loop takes when it is extracted into a helper `write_identifiers(f, lead, identifiers)`) -/
def idsFromL (lead : List Char) : Nat → List Ident → List Char
  | _, [] => []
  | n, a :: as => (if n = 0 then lead else ['.']) ++ (a.render ++ idsFromL lead (n + 1) as)

theorem fmt_loopL (lead : List Char) (n : Nat) (l : List Ident) (f : List Char) :
    (enumerateFrom n l).foldl (fun s (x : Nat × Ident) =>
      (s ++ (if REq.eq x.1 0 = true then lead else ['.'])) ++ display x.2) f = f ++ idsFromL lead n l := by
  induction l generalizing n f with
  | nil => simp [enumerateFrom, idsFromL]
  | cons a as ih =>
    simp only [enumerateFrom, List.foldl_cons]
    rw [ih]
    by_cases h : n = 0 <;> simp [h, idsFromL, display, RDisplay.fmt, Ident_fmt, REq.eq]

theorem idsFromL_char (c : Char) (n : Nat) (l : List Ident) : idsFromL [c] n l = idsFrom c n l := by
  induction l generalizing n with
  | nil => rfl
  | cons a as ih => by_cases h : n = 0 <;> simp [idsFromL, idsFrom, ih, h]

theorem dot_loop (n : Nat) (l : List Ident) (f : List Char) :
    l.foldl (fun s (i : Ident) => s ++ (['.'] ++ display i)) f = f ++ idsFrom '.' (n + 1) l := by
  induction l generalizing n f with
  | nil => simp [idsFrom]
  | cons a as ih =>
    simp only [List.foldl_cons]
    rw [ih (n + 1)]
    simp [idsFrom, display, RDisplay.fmt, Ident_fmt]

theorem Version_fmt (v : Version) : v.rs_fmt = v.render := by
  unfold Version.rs_fmt
  first
  | -- the two loops written out in `fmt`
    (simp only [id_run, id_bind, id_pure]
     rw [forIn_fold (g := fun (x : Nat × Ident) s => (if REq.eq x.1 0 = true then s ++ ['+'] else s ++ ['.']) ++ display x.2)]
     · rw [forIn_fold (g := fun (x : Nat × Ident) s => (if REq.eq x.1 0 = true then s ++ ['-'] else s ++ ['.']) ++ display x.2)]
       · simp only [Rust.enumerate, fmt_loop, idsFrom_zero]
         simp [Version.render, renderCore, display, RDisplay.fmt]
       · intro x s; obtain ⟨i, ident⟩ := x; simp only; split <;> rfl
     · intro x s; obtain ⟨i, ident⟩ := x; simp only; split <;> rfl)
  | -- the loop extracted into a helper that is handed the formatter, the lead and the identifiers
    (unfold_auto_helpers
     simp only [id_run, id_bind, id_pure]
     rw [forIn_fold (g := fun (x : Nat × Ident) s => (s ++ (if REq.eq x.1 0 = true then ['-'] else ['.'])) ++ display x.2)
           (h := fun _ _ => rfl),
         forIn_fold (g := fun (x : Nat × Ident) s => (s ++ (if REq.eq x.1 0 = true then ['+'] else ['.'])) ++ display x.2)
           (h := fun _ _ => rfl)]
     simp only [Rust.enumerate, fmt_loopL, idsFromL_char, idsFrom_zero]
     simp [Version.render, renderCore, display, RDisplay.fmt])
  | -- a helper that writes the lead and the first identifier, then `.` and each of the rest
    (unfold_auto_helpers
     simp only [id_run, id_bind, id_pure]
     have hl : ∀ (l : List Ident) (f : List Char),
         (forIn l f (fun ident s => ForInStep.yield (s ++ '.' :: ident.render)) : Id (List Char)) = f ++ idsFrom '.' 1 l := by
       intro l f
       rw [forIn_fold (g := fun (i : Ident) s => s ++ '.' :: i.render) (h := fun _ _ => rfl)]
       have := dot_loop 0 l f
       simp only [display, RDisplay.fmt, Ident_fmt, List.singleton_append] at this
       exact this
     have hd := idsFrom_dot 0
     rcases hp : v.pre with _ | ⟨a, as⟩ <;> rcases hb : v.build with _ | ⟨b, bs⟩ <;>
       simp [Rust.next, hl, Version.render, renderCore, display, RDisplay.fmt, hp, hb, Ident_fmt, idsFrom, hd])

/-! ### tuple conversions (all ten integer types) -/

/-- a conversion is the struct literal of the model, or is written through another conversion
(`..Version::from((major, minor, patch))`): unfold the conversions it goes through -/
macro "from_tac" : tactic => `(tactic| first
  | rfl
  | (simp [Rust.into, RInto.into, Id.run, Version.rs_from_u64x3, Version.rs_from_i64x3, Version.rs_from_u64x4,
      Version.rs_from_i64x4, Version.rs_from_u8x3, Version.rs_from_u16x3, Version.rs_from_u32x3, Version.rs_from_usizex3,
      Version.rs_from_u8x4, Version.rs_from_u16x4, Version.rs_from_u32x4, Version.rs_from_usizex4,
      Version.rs_from_i8x3, Version.rs_from_i16x3, Version.rs_from_i32x3, Version.rs_from_isizex3,
      Version.rs_from_i8x4, Version.rs_from_i16x4, Version.rs_from_i32x4, Version.rs_from_isizex4,
      Version.mk3, Version.mk4]))

theorem from_u8x3 (a b c : Nat) : Version.rs_from_u8x3 (a, b, c) = Version.mk3 a b c := by from_tac
theorem from_u16x3 (a b c : Nat) : Version.rs_from_u16x3 (a, b, c) = Version.mk3 a b c := by from_tac
theorem from_u32x3 (a b c : Nat) : Version.rs_from_u32x3 (a, b, c) = Version.mk3 a b c := by from_tac
theorem from_u64x3 (a b c : Nat) : Version.rs_from_u64x3 (a, b, c) = Version.mk3 a b c := by from_tac
theorem from_usizex3 (a b c : Nat) : Version.rs_from_usizex3 (a, b, c) = Version.mk3 a b c := by from_tac
theorem from_u8x4 (a b c d : Nat) : Version.rs_from_u8x4 (a, b, c, d) = Version.mk4 a b c d := by from_tac
theorem from_u16x4 (a b c d : Nat) : Version.rs_from_u16x4 (a, b, c, d) = Version.mk4 a b c d := by from_tac
theorem from_u32x4 (a b c d : Nat) : Version.rs_from_u32x4 (a, b, c, d) = Version.mk4 a b c d := by from_tac
theorem from_u64x4 (a b c d : Nat) : Version.rs_from_u64x4 (a, b, c, d) = Version.mk4 a b c d := by from_tac
theorem from_usizex4 (a b c d : Nat) : Version.rs_from_usizex4 (a, b, c, d) = Version.mk4 a b c d := by from_tac

/-- `x as u64` of a non-negative signed value below 2^64 is the value -/
theorem as_u64_nonneg (a : Nat) (h : a < 18446744073709551616) : Rust.as_u64 (a : Int) = a := by
  simp only [Rust.as_u64, RAsU64.as_u64]
  omega

/-- a conversion from a signed triple agrees with the model on non-negative values that fit -/
def Signed3 (f : Int × Int × Int → Version) : Prop :=
  ∀ a b c : Nat, a < 18446744073709551616 → b < 18446744073709551616 → c < 18446744073709551616 →
    f ((a : Int), (b : Int), (c : Int)) = Version.mk3 a b c
def Signed4 (f : Int × Int × Int × Int → Version) : Prop :=
  ∀ a b c d : Nat, a < 18446744073709551616 → b < 18446744073709551616 → c < 18446744073709551616 →
    d < 18446744073709551616 → f ((a : Int), (b : Int), (c : Int), (d : Int)) = Version.mk4 a b c d

theorem from_signed3 (f : Int × Int × Int → Version)
    (hf : ∀ x, f x = ⟨Rust.as_u64 x.1, Rust.as_u64 x.2.1, Rust.as_u64 x.2.2, [], []⟩) : Signed3 f := by
  intro a b c ha hb hc
  rw [hf]; simp [as_u64_nonneg, ha, hb, hc, Version.mk3]

theorem from_signed4 (f : Int × Int × Int × Int → Version)
    (hf : ∀ x, f x = ⟨Rust.as_u64 x.1, Rust.as_u64 x.2.1, Rust.as_u64 x.2.2.1, [.num (Rust.as_u64 x.2.2.2)], []⟩) :
    Signed4 f := by
  intro a b c d ha hb hc hd
  rw [hf]; simp [as_u64_nonneg, ha, hb, hc, hd, Version.mk4]

theorem from_i8x3 : Signed3 Version.rs_from_i8x3 := from_signed3 Version.rs_from_i8x3 (fun _ => by from_tac)
theorem from_i16x3 : Signed3 Version.rs_from_i16x3 := from_signed3 Version.rs_from_i16x3 (fun _ => by from_tac)
theorem from_i32x3 : Signed3 Version.rs_from_i32x3 := from_signed3 Version.rs_from_i32x3 (fun _ => by from_tac)
theorem from_i64x3 : Signed3 Version.rs_from_i64x3 := from_signed3 Version.rs_from_i64x3 (fun _ => by from_tac)
theorem from_isizex3 : Signed3 Version.rs_from_isizex3 := from_signed3 Version.rs_from_isizex3 (fun _ => by from_tac)
theorem from_i8x4 : Signed4 Version.rs_from_i8x4 := from_signed4 Version.rs_from_i8x4 (fun _ => by from_tac)
theorem from_i16x4 : Signed4 Version.rs_from_i16x4 := from_signed4 Version.rs_from_i16x4 (fun _ => by from_tac)
theorem from_i32x4 : Signed4 Version.rs_from_i32x4 := from_signed4 Version.rs_from_i32x4 (fun _ => by from_tac)
theorem from_i64x4 : Signed4 Version.rs_from_i64x4 := from_signed4 Version.rs_from_i64x4 (fun _ => by from_tac)
theorem from_isizex4 : Signed4 Version.rs_from_isizex4 := from_signed4 Version.rs_from_isizex4 (fun _ => by from_tac)

end Semver.GenEquiv
