import SemverProofs.GenEquiv.VersionParse
import SemverProofs.GenEquiv.Tables
/-!
# The parsers extracted from `src/range.rs` are the model's parsers

Inside `simple` every failure is swallowed (its last alternative, `garbage`, always succeeds), so the
model's sub-parsers return `Option`; `toOpt` forgets the error of the extracted parser accordingly.
`simple`, `range`, `bound_sets` never fail and are compared exactly; `range_set` is compared with
`Range.parse` including the error it reports.
-/
namespace Semver.GenEquiv
open Semver Rust Winnow

def toOpt {α : Type} : PRes α → Option (α × List Char)
  | .ok a r => some (a, r)
  | .err _ => none

@[simp] theorem toOpt_ok {α : Type} (a : α) (r : List Char) : toOpt (PRes.ok a r) = some (a, r) := rfl
@[simp] theorem toOpt_err {α : Type} (e : PErr) : toOpt (PRes.err e : PRes α) = none := rfl

theorem lit_ne (c d : Char) (t : List Char) (h : d ≠ c) : Winnow.literal [c] (d :: t) = .err (errAt (d :: t)) := by
  have : (c == d) = false := by simp; exact fun h' => h h'.symm
  simp [literal_char, this]

theorem lit_eq (c : Char) (t : List Char) : Winnow.literal [c] (c :: t) = .ok [c] t := by
  simp [literal_char]

theorem lit_nil (c : Char) : Winnow.literal [c] [] = .err (errAt []) := by
  simp [literal_char]

/-! ### component, partial_version -/

theorem x_or_asterisk_eq (s : List Char) :
    toOpt (Semver.Gen.x_or_asterisk s) = match s with
      | 'x' :: t => some ((), t)
      | 'X' :: t => some ((), t)
      | '*' :: t => some ((), t)
      | _ => none := by
  unfold Semver.Gen.x_or_asterisk
  simp only [Winnow.map, Winnow.alt, Winnow.altFrom]
  cases s with
  | nil => simp [lit_nil]
  | cons d t =>
    -- in whatever order the three literals are tried
    by_cases h1 : d = 'x'
    · subst h1; simp [lit_eq, lit_ne]
    · by_cases h2 : d = 'X'
      · subst h2; simp [lit_eq, lit_ne]
      · by_cases h3 : d = '*'
        · subst h3; simp [lit_eq, lit_ne]
        · simp only [lit_ne _ _ _ h1, lit_ne _ _ _ h2, lit_ne _ _ _ h3, toOpt_err]
          split <;> simp_all

theorem component_eq (s : List Char) : toOpt (Semver.Gen.component s) = component s := by
  have hx := x_or_asterisk_eq s
  unfold Semver.Gen.component component
  simp only [Winnow.map, Winnow.alt, Winnow.altFrom, number_eq]
  cases hg : Semver.Gen.x_or_asterisk s with
  | ok u r =>
    rw [hg] at hx
    simp only [toOpt_ok] at hx ⊢
    split at hx <;> simp_all
  | err e =>
    rw [hg] at hx
    simp only [toOpt_err] at hx
    simp only
    have hnot : ∀ t, s ≠ 'x' :: t ∧ s ≠ 'X' :: t ∧ s ≠ '*' :: t := by
      intro t; split at hx <;> simp_all
    cases hn : number s with
    | ok v r =>
      simp only [toOpt_ok]
      split
      · rename_i t; exact absurd rfl (hnot t).1
      · rename_i t; exact absurd rfl (hnot t).2.1
      · rename_i t; exact absurd rfl (hnot t).2.2
      · simp [hn]
    | err e2 =>
      simp only [toOpt_err]
      split
      · rename_i t; exact absurd rfl (hnot t).1
      · rename_i t; exact absurd rfl (hnot t).2.1
      · rename_i t; exact absurd rfl (hnot t).2.2
      · simp [hn]

theorem opt_dot_component (s : List Char) :
    Winnow.opt (Winnow.preceded (Winnow.literal ['.']) Semver.Gen.component) s =
      .ok (dotComponent s).1 (dotComponent s).2 := by
  unfold dotComponent
  simp only [Winnow.opt, Winnow.preceded, bind_def]
  cases s with
  | nil => simp [lit_nil]
  | cons d t =>
    by_cases h : d = '.'
    · subst h
      simp only [lit_eq]
      have hc := component_eq t
      cases hg : Semver.Gen.component t with
      | ok c r => rw [hg] at hc; simp only [toOpt_ok] at hc; simp [← hc]
      | err e => rw [hg] at hc; simp only [toOpt_err] at hc; simp [← hc]
    · simp only [lit_ne _ _ _ h]
      split
      · rename_i t' heq; cases heq; exact absurd rfl h
      · rfl

theorem opt_lit_v (s : List Char) : ∃ x, Winnow.opt (Winnow.literal ['v']) s = .ok x (stripV s) := by
  cases s with
  | nil => exact ⟨none, by simp [Winnow.opt, lit_nil, stripV]⟩
  | cons d t =>
    by_cases h : d = 'v'
    · subst h; exact ⟨some ['v'], by simp [Winnow.opt, lit_eq, stripV]⟩
    · refine ⟨none, ?_⟩
      simp only [Winnow.opt, lit_ne _ _ _ h]
      congr 1
      unfold stripV
      split
      · rename_i t' heq; cases heq; exact absurd rfl h
      · rfl

/-- `preceded((a, b), c)` is `a`, `b`, `c` in sequence (so that the combinator spelling of a prefix and the three
statements `a(input)?; b(input)?; c(input)?` are the same term for the proofs below) -/
theorem preceded_seq2 {α β γ : Type} (a : Parser α) (b : Parser β) (c : Parser γ) :
    Winnow.preceded (Winnow.seq2 a b) c = (a >>= fun _ => b >>= fun _ => c) := by
  funext s
  simp only [Winnow.preceded, Winnow.seq2, bind_def, pure_def]
  cases a s with
  | err e => rfl
  | ok x r => simp only; cases b r <;> rfl

theorem partial_version_eq (s : List Char) : toOpt (Semver.Gen.partial_version s) = partialVersion s := by
  unfold Semver.Gen.partial_version partialVersion partialCore
  obtain ⟨x, hx⟩ := opt_lit_v s
  -- statement style and combinator style (`preceded((opt("v"), space0), component)`) unfold to the same binds
  simp only [preceded_seq2, bind_def, hx, space0_eq]
  have hc := component_eq (dropBlanks (stripV s))
  cases hg : Semver.Gen.component (dropBlanks (stripV s)) with
  | err e => rw [hg] at hc; simp only [toOpt_err] at hc; simp [← hc]
  | ok major r1 =>
    rw [hg] at hc; simp only [toOpt_ok] at hc
    simp only [← hc, opt_dot_component, pure_def]
    cases hp : (dotComponent (dotComponent r1).2).1 with
    | none =>
      rcases major with _ | m <;> rcases hm : (dotComponent r1).1 with _ | (_ | mi) <;>
        simp [Rust.is_some, hp, pure_def, Rust.and, Rust.flatten, RFlatten.flatten, hm]
    | some p =>
      simp only [Rust.is_some, hp, Option.isSome_some, ↓reduceIte, extras_eq]
      rcases major with _ | m <;> rcases hm : (dotComponent r1).1 with _ | (_ | mi) <;> rcases p with _ | pa <;>
        simp [pure_def, Rust.and, Rust.flatten, RFlatten.flatten, hm]

/-! ### operation and the five comparator forms -/

theorem lit2 (a b : Char) (s : List Char) :
    Winnow.literal [a, b] s = match s with
      | c :: d :: t => if (a == c && b == d) then .ok [a, b] t else .err (errAt s)
      | _ => .err (errAt s) := by
  rcases s with _ | ⟨c, _ | ⟨d, t⟩⟩ <;> simp [Winnow.literal, Winnow.isPrefix]

theorem operation_eq (s : List Char) : toOpt (Semver.Gen.operation s) = operation s := by
  unfold Semver.Gen.operation operation
  simp only [Winnow.map, Winnow.alt, Winnow.altFrom, lit2]
  rcases s with _ | ⟨c, rest⟩
  · simp [lit_nil]
  · by_cases h1 : c = '>'
    · subst h1
      rcases rest with _ | ⟨d, t⟩
      · simp [lit_eq]
      · by_cases h2 : d = '='
        · subst h2; simp
        · have : ('=' == d) = false := by simp; exact fun h => h2 h.symm
          simp [this, lit_eq]
          split
          · rename_i t' heq; cases heq; exact absurd rfl h2
          · rfl
    · by_cases h3 : c = '='
      · subst h3
        have e1 : ('>' == '=') = false := by decide
        have e2 : ('<' == '=') = false := by decide
        rcases rest with _ | ⟨d, t⟩ <;> simp [lit_eq, lit_ne, e1, e2, h1]
      · by_cases h4 : c = '<'
        · subst h4
          have e1 : ('>' == '<') = false := by decide
          rcases rest with _ | ⟨d, t⟩
          · simp [lit_eq, lit_ne, e1]
          · by_cases h2 : d = '='
            · subst h2; simp [lit_ne, e1]
            · have : ('=' == d) = false := by simp; exact fun h => h2 h.symm
              simp [this, lit_eq, lit_ne, e1]
              split
              · rename_i t' heq; cases heq; exact absurd rfl h2
              · rfl
        · have e1 : ('>' == c) = false := by simp; exact fun h => h1 h.symm
          have e2 : ('<' == c) = false := by simp; exact fun h => h4 h.symm
          rcases rest with _ | ⟨d, t⟩ <;> simp [lit_ne _ _ _ h1, lit_ne _ _ _ h3, lit_ne _ _ _ h4, e1, e2, h1, h3, h4]

theorem primitive_eq (s : List Char) : toOpt (Semver.Gen.primitive s) = primitive s := by
  unfold Semver.Gen.primitive primitive
  simp only [Winnow.context, Winnow.map, Winnow.seq2, Winnow.preceded, bind_def, pure_def, space0_eq]
  have ho := operation_eq s
  cases hg : Semver.Gen.operation s with
  | err e => rw [hg] at ho; simp only [toOpt_err] at ho; simp [← ho]
  | ok op r =>
    rw [hg] at ho; simp only [toOpt_ok] at ho
    simp only [← ho]
    have hp := partial_version_eq (dropBlanks r)
    cases hg2 : Semver.Gen.partial_version (dropBlanks r) with
    | err e => rw [hg2] at hp; simp only [toOpt_err] at hp; simp [← hp]
    | ok p r' => rw [hg2] at hp; simp only [toOpt_ok] at hp; simp [← hp, primitive_table]

theorem partial_eq (s : List Char) : toOpt (Semver.Gen.partial s) = partialP s := by
  unfold Semver.Gen.partial partialP
  simp only [Winnow.context, Winnow.map]
  have hp := partial_version_eq s
  cases hg : Semver.Gen.partial_version s with
  | err e => rw [hg] at hp; simp only [toOpt_err] at hp; simp [← hp]
  | ok p r => rw [hg] at hp; simp only [toOpt_ok] at hp; simp [← hp, partial_table]

theorem opt_lit_gt (s : List Char) :
    Winnow.opt (Winnow.literal ['>']) s = .ok (if (stripGt s).1 then some ['>'] else none) (stripGt s).2 := by
  cases s with
  | nil => simp [Winnow.opt, lit_nil, stripGt]
  | cons d t =>
    by_cases h : d = '>'
    · subst h; simp [Winnow.opt, lit_eq, stripGt]
    · simp only [Winnow.opt, lit_ne _ _ _ h]
      have : stripGt (d :: t) = (false, d :: t) := by
        unfold stripGt
        split
        · rename_i t' heq; cases heq; exact absurd rfl h
        · rfl
      simp [this]

theorem tilde_gt_eq (s : List Char) :
    toOpt (Semver.Gen.tilde_gt s) = (tildeGt s).map (fun x => (if x.1 then some ['>'] else none, x.2)) := by
  unfold Semver.Gen.tilde_gt tildeGt
  simp only [Winnow.map, Winnow.seq4, bind_def, pure_def, space0_eq, opt_lit_gt]
  cases s with
  | nil => simp [lit_nil]
  | cons d t =>
    by_cases h : d = '~'
    · subst h; simp [lit_eq]
    · simp only [lit_ne _ _ _ h, toOpt_err]
      split
      · rename_i t' heq; cases heq; exact absurd rfl h
      · rfl

theorem tilde_eq (s : List Char) : toOpt (Semver.Gen.tilde s) = tilde s := by
  unfold Semver.Gen.tilde tilde
  simp only [Winnow.context, Winnow.map, Winnow.seq2, bind_def, pure_def]
  have ht := tilde_gt_eq s
  cases hg : Semver.Gen.tilde_gt s with
  | err e =>
    rw [hg] at ht; simp only [toOpt_err] at ht
    cases hm : tildeGt s with
    | none => simp
    | some x => simp [hm] at ht
  | ok gt r =>
    rw [hg] at ht; simp only [toOpt_ok] at ht
    cases hm : tildeGt s with
    | none => simp [hm] at ht
    | some x =>
      obtain ⟨g, r2⟩ := x
      simp only [hm, Option.map_some, Option.some.injEq, Prod.mk.injEq] at ht
      obtain ⟨hgt, hr⟩ := ht
      subst hr
      have hp := partial_version_eq r
      simp only
      cases hg2 : Semver.Gen.partial_version r with
      | err e => rw [hg2] at hp; simp only [toOpt_err] at hp; simp [← hp]
      | ok p r' =>
        rw [hg2] at hp; simp only [toOpt_ok] at hp
        simp only [← hp, toOpt_ok, tilde_table, hgt]
        cases g <;> simp

theorem caret_eq (s : List Char) : toOpt (Semver.Gen.caret s) = caret s := by
  unfold Semver.Gen.caret caret
  simp only [Winnow.context, Winnow.map, Winnow.preceded, Winnow.seq2, bind_def, pure_def, space0_eq]
  cases s with
  | nil => simp [lit_nil]
  | cons d t =>
    by_cases h : d = '^'
    · subst h
      simp only [lit_eq]
      have hp := partial_version_eq (dropBlanks t)
      cases hg : Semver.Gen.partial_version (dropBlanks t) with
      | err e => rw [hg] at hp; simp only [toOpt_err] at hp; simp [← hp]
      | ok p r => rw [hg] at hp; simp only [toOpt_ok] at hp; simp [← hp, caret_table]
    · simp only [lit_ne _ _ _ h, toOpt_err]
      split
      · rename_i t' heq; cases heq; exact absurd rfl h
      · rfl

/-! ### hyphen -/

theorem opt_partial (s : List Char) :
    Winnow.opt Semver.Gen.partial_version s = .ok (optPartial s).1 (optPartial s).2 := by
  unfold Winnow.opt optPartial
  have hp := partial_version_eq s
  cases hg : Semver.Gen.partial_version s with
  | err e => rw [hg] at hp; simp only [toOpt_err] at hp; simp [← hp]
  | ok p r => rw [hg] at hp; simp only [toOpt_ok] at hp; simp [← hp]

theorem span_blank_cons (c : Char) (t : List Char) (h : isBlank c = true) :
    (span isBlank (c :: t)).2 = dropBlanks t ∧ (span isBlank (c :: t)).1.isEmpty = false := by
  simp [span, h, dropBlanks]

theorem span_notblank_cons (c : Char) (t : List Char) (h : isBlank c = false) :
    (span isBlank (c :: t)).1 = [] := by
  simp [span, h]

theorem space1_eq (s : List Char) : toOpt (Winnow.space1 s) = (blanks1 s).map (fun r => ((span isBlank s).1, r)) := by
  unfold Winnow.space1 Winnow.takeWhile1 blanks1
  rw [isSpace_eq]
  cases s with
  | nil => simp [span]
  | cons c t =>
    cases h : isBlank c with
    | true => simp [(span_blank_cons c t h).1, (span_blank_cons c t h).2, h]
    | false => simp [span_notblank_cons c t h, h]

theorem hyphen_upper (u : Partial) :
    (match u with
      | { major := none, .. } => Pred.unb
      | { major := some major, minor := none, patch := none, .. } =>
        Pred.exc ({ major := major + 1, minor := 0, patch := 0, pre := [Ident.num 0], build := [] } : Version)
      | { major := some major, minor := some minor, patch := none, .. } =>
        Pred.exc ({ major := major, minor := minor + 1, patch := 0, pre := [Ident.num 0], build := [] } : Version)
      | partial_ => Pred.inc (Rust.into partial_)) = hyphenUpper u := by
  obtain ⟨ma, mi, pa, pre, build⟩ := u
  cases ma <;> cases mi <;> cases pa <;> simp [hyphenUpper, Version.mk4, into_partial]

theorem hyphen_set (lower : Option Partial) (upper : Pred) :
    (match lower with
      | some lower => BoundSet.rs_new (Bound.lo (Pred.inc (Rust.into lower))) (Bound.up upper)
      | _ => if REq.eq upper Pred.unb = true then BoundSet.rs_at_least (Pred.inc (Rust.into ((0 : Nat), (0 : Nat), (0 : Nat))))
        else BoundSet.rs_at_most upper) = hyphenSet lower upper := by
  cases lower with
  | some l => simp [hyphenSet, BoundSet_new, into_partial]
  | none =>
    cases upper <;>
      simp [hyphenSet, REq.eq, Pred.rs_eq, BoundSet_at_least, BoundSet_at_most, into3]

theorem hyphen_rest (s : List Char) :
    toOpt ((do let _ ← Winnow.space1; let _ ← Winnow.literal ['-']; let _ ← Winnow.space1; Semver.Gen.partial_version : Parser Partial) s)
      = hyphenRest s := by
  unfold hyphenRest
  simp only [bind_def]
  have h1 := space1_eq s
  cases hg1 : Winnow.space1 s with
  | err e =>
    rw [hg1] at h1; simp only [toOpt_err] at h1
    cases hb : blanks1 s with
    | none => simp
    | some r => simp [hb] at h1
  | ok x r1 =>
    rw [hg1] at h1; simp only [toOpt_ok] at h1
    cases hb : blanks1 s with
    | none => simp [hb] at h1
    | some r1' =>
      simp only [hb, Option.map_some, Option.some.injEq, Prod.mk.injEq] at h1
      obtain ⟨_, hr⟩ := h1
      subst hr
      simp only
      cases r1 with
      | nil => simp [lit_nil, dash]
      | cons d t =>
        by_cases hd : d = '-'
        · subst hd
          simp only [lit_eq, dash]
          have h2 := space1_eq t
          cases hg2 : Winnow.space1 t with
          | err e =>
            rw [hg2] at h2; simp only [toOpt_err] at h2
            cases hb2 : blanks1 t with
            | none => simp
            | some r => simp [hb2] at h2
          | ok y r3 =>
            rw [hg2] at h2; simp only [toOpt_ok] at h2
            cases hb2 : blanks1 t with
            | none => simp [hb2] at h2
            | some r3' =>
              simp only [hb2, Option.map_some, Option.some.injEq, Prod.mk.injEq] at h2
              obtain ⟨_, hr3⟩ := h2
              subst hr3
              simp only
              exact partial_version_eq r3
        · simp only [lit_ne _ _ _ hd, toOpt_err]
          have : dash (d :: t) = none := by
            unfold dash
            split
            · rename_i r heq; cases heq; exact absurd rfl hd
            · rfl
          simp [this]

theorem hyphen_parser_eq (s : List Char) : toOpt (Semver.Gen.hyphen_parser s) = hyphen s := by
  unfold Semver.Gen.hyphen_parser hyphen
  -- `separated_pair(opt(partial_version), (space1, "-", space1), partial_version)` unfolds to the five statements
  simp only [Winnow.separatedPair, Winnow.seq3, Winnow.seq2, Winnow.preceded, Winnow.terminated]
  simp only [bind_def, pure_def, opt_partial]
  have hr := hyphen_rest (optPartial s).2
  simp only [bind_def] at hr ⊢
  cases hg1 : Winnow.space1 (optPartial s).2 with
  | err e => rw [hg1] at hr; simp only [toOpt_err] at hr; simp [← hr]
  | ok x r1 =>
    rw [hg1] at hr
    simp only at hr ⊢
    cases hg2 : Winnow.literal ['-'] r1 with
    | err e => rw [hg2] at hr; simp only [toOpt_err] at hr; simp [← hr]
    | ok y r2 =>
      rw [hg2] at hr
      simp only at hr ⊢
      cases hg3 : Winnow.space1 r2 with
      | err e => rw [hg3] at hr; simp only [toOpt_err] at hr; simp [← hr]
      | ok z r3 =>
        rw [hg3] at hr
        simp only at hr ⊢
        cases hg4 : Semver.Gen.partial_version r3 with
        | err e => rw [hg4] at hr; simp only [toOpt_err] at hr; simp [← hr]
        | ok u r4 =>
          rw [hg4] at hr
          simp only [toOpt_ok] at hr
          simp only [← hr, pure_def, toOpt_ok, Rust.filter, RFilter.filter, Rust.is_some]
          obtain ⟨ma, mi, pa, pre, build⟩ := u
          cases Option.filter (fun partial_ => partial_.major.isSome) (optPartial s).fst <;>
            cases ma <;> cases mi <;> cases pa <;>
            simp [hyphenSet, hyphenUpper, Version.mk3, Version.mk4, into_partial, into3, into4, BoundSet_new, REq.eq, Pred.rs_eq,
              BoundSet_at_least, BoundSet_at_most]

theorem hyphen_eq (s : List Char) : toOpt (Semver.Gen.hyphen s) = hyphen s := by
  rw [← hyphen_parser_eq]
  unfold Semver.Gen.hyphen
  simp only [Winnow.context]
  cases Semver.Gen.hyphen_parser s <;> rfl

/-! ### the end-of-comparator test, garbage, simple -/

theorem space1_ok_iff (s : List Char) :
    (∃ x r, Winnow.space1 s = .ok x r) ↔ (∃ c t, s = c :: t ∧ isBlank c = true) := by
  have h := space1_eq s
  unfold blanks1 at h
  constructor
  · rintro ⟨x, r, hx⟩
    rw [hx] at h
    cases s with
    | nil => simp at h
    | cons c t =>
      cases hb : isBlank c with
      | true => exact ⟨c, t, rfl, hb⟩
      | false => simp [hb] at h
  · rintro ⟨c, t, rfl, hb⟩
    cases hg : Winnow.space1 (c :: t) with
    | ok x r => exact ⟨x, r, rfl⟩
    | err e => rw [hg] at h; simp [hb] at h

/-- `alt((space1, literal("||"), eof))` succeeds exactly when `atEnd` holds -/
theorem end_alt (s : List Char) :
    (∃ x r, Winnow.alt [Winnow.space1, Winnow.literal ['|', '|'], Winnow.eof] s = .ok x r) ↔ atEnd s = true := by
  simp only [Winnow.alt, Winnow.altFrom, lit2]
  cases s with
  | nil => simp [Winnow.space1, Winnow.takeWhile1, span, Winnow.eof, atEnd]
  | cons c t =>
    by_cases hb : isBlank c = true
    · obtain ⟨x, r, hx⟩ := (space1_ok_iff (c :: t)).2 ⟨c, t, rfl, hb⟩
      simp only [hx]
      constructor
      · intro _
        unfold atEnd
        split
        · rfl
        · rfl
        · rename_i c' t' _ heq; cases heq; exact hb
      · intro _; exact ⟨x, r, rfl⟩
    · have hns : ∀ x r, Winnow.space1 (c :: t) ≠ .ok x r := by
        intro x r hx
        obtain ⟨c', t', heq, hb'⟩ := (space1_ok_iff (c :: t)).1 ⟨x, r, hx⟩
        cases heq; exact hb hb'
      cases hg : Winnow.space1 (c :: t) with
      | ok x r => exact absurd hg (hns x r)
      | err e =>
        simp only
        cases t with
        | nil =>
          simp only [Winnow.eof]
          constructor
          · rintro ⟨x, r, hx⟩; cases hx
          · intro ha
            unfold atEnd at ha
            simp at ha
            exact absurd ha hb
        | cons d t2 =>
          by_cases hp : c = '|' ∧ d = '|'
          · obtain ⟨rfl, rfl⟩ := hp
            simp [atEnd]
          · have : (('|' == c) && ('|' == d)) = false := by
              rw [Bool.and_eq_false_iff]
              by_cases h1 : c = '|'
              · right; simp; intro h2; exact hp ⟨h1, h2.symm⟩
              · left; simp; exact fun h => h1 h.symm
            simp only [this, Bool.false_eq_true, ↓reduceIte, Winnow.eof]
            constructor
            · rintro ⟨x, r, hx⟩; cases hx
            · intro ha
              unfold atEnd at ha
              split at ha
              · rename_i heq; cases heq
              · rename_i heq; cases heq; exact absurd ⟨rfl, rfl⟩ hp
              · rename_i c' t' _ heq; cases heq; exact absurd ha hb

/-- `peek(alt((space1, literal("||"), eof)))`: succeeds without consuming exactly at the end of a comparator -/
theorem end_peek (s : List Char) :
    toOpt (Winnow.peek (Winnow.alt [Winnow.space1, Winnow.literal ['|', '|'], Winnow.eof]) s) =
      if atEnd s then (toOpt (Winnow.peek (Winnow.alt [Winnow.space1, Winnow.literal ['|', '|'], Winnow.eof]) s)) else none := by
  have h := end_alt s
  unfold Winnow.peek
  cases hg : Winnow.alt [Winnow.space1, Winnow.literal ['|', '|'], Winnow.eof] s with
  | ok x r => have := h.1 ⟨x, r, hg⟩; simp [this]
  | err e =>
    cases ha : atEnd s with
    | false => simp
    | true => obtain ⟨x, r, hx⟩ := h.2 ha; rw [hx] at hg; cases hg

theorem terminated_eq' (p : Parser (Option BoundSet)) (s : List Char) (m : Option (Option BoundSet × List Char))
    (hp : toOpt (p s) = m) :
    toOpt (Winnow.terminated p (Winnow.peek (Winnow.alt [Winnow.space1, Winnow.literal ['|', '|'], Winnow.eof])) s) =
      Semver.terminated m := by
  unfold Winnow.terminated Semver.terminated
  simp only [bind_def]
  cases hg : p s with
  | err e => rw [hg] at hp; simp only [toOpt_err] at hp; simp [← hp]
  | ok b rest =>
    rw [hg] at hp; simp only [toOpt_ok] at hp
    simp only [← hp]
    have h := end_alt rest
    unfold Winnow.peek
    cases hg2 : Winnow.alt [Winnow.space1, Winnow.literal ['|', '|'], Winnow.eof] rest with
    | ok x r => have := h.1 ⟨x, r, hg2⟩; simp [this, pure_def]
    | err e =>
      cases ha : atEnd rest with
      | false => simp
      | true => obtain ⟨x, r, hx⟩ := h.2 ha; rw [hx] at hg2; cases hg2

/-- the end test of `garbage`: `alt((peek(space1), peek(literal("||")), eof))` succeeds, without consuming,
exactly when `atEnd` holds -/
theorem garbage_end (s : List Char) :
    (atEnd s = true ∧ ∃ x, Winnow.alt [Winnow.peek Winnow.space1, Winnow.peek (Winnow.literal ['|', '|']), Winnow.eof] s = .ok x s) ∨
    (atEnd s = false ∧ ∃ e, Winnow.alt [Winnow.peek Winnow.space1, Winnow.peek (Winnow.literal ['|', '|']), Winnow.eof] s = .err e) := by
  have h := end_alt s
  simp only [Winnow.alt, Winnow.altFrom, Winnow.peek] at h ⊢
  cases hg1 : Winnow.space1 s with
  | ok x r =>
    rw [hg1] at h
    exact Or.inl ⟨h.1 ⟨x, r, rfl⟩, x, rfl⟩
  | err e1 =>
    rw [hg1] at h
    simp only at h ⊢
    cases hg2 : Winnow.literal ['|', '|'] s with
    | ok x r =>
      rw [hg2] at h
      exact Or.inl ⟨h.1 ⟨x, r, rfl⟩, x, rfl⟩
    | err e2 =>
      rw [hg2] at h
      simp only at h ⊢
      cases s with
      | nil => exact Or.inl ⟨rfl, [], rfl⟩
      | cons c t =>
        right
        simp only [Winnow.eof] at h ⊢
        refine ⟨?_, _, rfl⟩
        cases ha : atEnd (c :: t) with
        | false => rfl
        | true => obtain ⟨x, r, hx⟩ := h.2 ha; cases hx

/-- what the loop of `garbage` needs of its end test: it succeeds, without consuming, exactly when `atEnd` holds -/
def EndTest {α : Type} (g : Parser α) : Prop :=
  ∀ s, (atEnd s = true ∧ ∃ x, g s = .ok x s) ∨ (atEnd s = false ∧ ∃ e, g s = .err e)

/-- the other spelling of the same test: `peek(alt((space1, literal("||"), eof)))` -/
theorem peek_end (s : List Char) :
    (atEnd s = true ∧ ∃ x, Winnow.peek (Winnow.alt [Winnow.space1, Winnow.literal ['|', '|'], Winnow.eof]) s = .ok x s) ∨
    (atEnd s = false ∧ ∃ e, Winnow.peek (Winnow.alt [Winnow.space1, Winnow.literal ['|', '|'], Winnow.eof]) s = .err e) := by
  have h := end_alt s
  unfold Winnow.peek
  cases hg : Winnow.alt [Winnow.space1, Winnow.literal ['|', '|'], Winnow.eof] s with
  | ok x r => exact Or.inl ⟨h.1 ⟨x, r, hg⟩, x, rfl⟩
  | err e =>
    refine Or.inr ⟨?_, e, rfl⟩
    cases ha : atEnd s with
    | false => rfl
    | true => obtain ⟨x, r, hx⟩ := h.2 ha; rw [hx] at hg; cases hg

theorem garbage_loop {α : Type} (g : Parser α) (hend : EndTest g) (n : Nat) (s : List Char) (h : s.length < n) :
    ∃ x, Winnow.repeatTill0 Winnow.any g n s = .ok ((), x) (garbage s) := by
  induction n generalizing s with
  | zero => omega
  | succ n ih =>
    rw [Winnow.repeatTill0]
    rcases hend s with ⟨ha, x, hx⟩ | ⟨hne, e, he⟩
    · have hg : garbage s = s := by
        cases s with
        | nil => rfl
        | cons c cs => simp [garbage, ha]
      exact ⟨x, by simp only [hx, hg]⟩
    · simp only [he]
      cases s with
      | nil => simp [atEnd] at hne
      | cons c cs =>
        simp only [Winnow.any]
        have hlen : (cs.length == (c :: cs).length) = false := by simp
        simp only [hlen, Bool.false_eq_true, ↓reduceIte]
        have : garbage (c :: cs) = garbage cs := by simp [garbage, hne]
        rw [this]
        exact ih cs (by simp at h; omega)

/-- `garbage` with any end test of that kind -/
theorem garbage_gen {α : Type} (g : Parser α) (hend : EndTest g) (s : List Char) :
    Winnow.map (fun s => Winnow.repeatTill0 Winnow.any g (s.length + 1) s) (fun _ => (none : Option BoundSet)) s
      = .ok none (garbage s) := by
  obtain ⟨x, hx⟩ := garbage_loop g hend (s.length + 1) s (by omega)
  simp only [Winnow.map, hx]

theorem garbage_eq (s : List Char) : Semver.Gen.garbage s = .ok none (garbage s) := by
  unfold Semver.Gen.garbage
  first
  | exact garbage_gen _ garbage_end s
  | exact garbage_gen _ peek_end s

theorem simple_eq (s : List Char) : Semver.Gen.simple s = .ok (simple s).1 (simple s).2 := by
  unfold Semver.Gen.simple simple
  simp only [Winnow.alt, Winnow.altFrom]
  have h1 := terminated_eq' Semver.Gen.hyphen s _ (hyphen_eq s)
  have h2 := terminated_eq' Semver.Gen.primitive s _ (primitive_eq s)
  have h3 := terminated_eq' Semver.Gen.partial s _ (partial_eq s)
  have h4 := terminated_eq' Semver.Gen.tilde s _ (tilde_eq s)
  have h5 := terminated_eq' Semver.Gen.caret s _ (caret_eq s)
  generalize Winnow.terminated Semver.Gen.hyphen (Winnow.peek (Winnow.alt [Winnow.space1, Winnow.literal ['|', '|'], Winnow.eof])) s = a1 at h1 ⊢
  generalize Winnow.terminated Semver.Gen.primitive (Winnow.peek (Winnow.alt [Winnow.space1, Winnow.literal ['|', '|'], Winnow.eof])) s = a2 at h2 ⊢
  generalize Winnow.terminated Semver.Gen.partial (Winnow.peek (Winnow.alt [Winnow.space1, Winnow.literal ['|', '|'], Winnow.eof])) s = a3 at h3 ⊢
  generalize Winnow.terminated Semver.Gen.tilde (Winnow.peek (Winnow.alt [Winnow.space1, Winnow.literal ['|', '|'], Winnow.eof])) s = a4 at h4 ⊢
  generalize Winnow.terminated Semver.Gen.caret (Winnow.peek (Winnow.alt [Winnow.space1, Winnow.literal ['|', '|'], Winnow.eof])) s = a5 at h5 ⊢
  rw [← h1, ← h2, ← h3, ← h4, ← h5]
  cases a1 with
  | ok x r => rfl
  | err e1 =>
    cases a2 with
    | ok x r => rfl
    | err e2 =>
      cases a3 with
      | ok x r => rfl
      | err e3 =>
        cases a4 with
        | ok x r => rfl
        | err e4 =>
          cases a5 with
          | ok x r => rfl
          | err e5 => simp [garbage_eq]

/-! ### the two `separated` loops -/

theorem space1_blanks1 (s : List Char) :
    (∃ x r, Winnow.space1 s = .ok x r ∧ blanks1 s = some r) ∨ ((∃ e, Winnow.space1 s = .err e) ∧ blanks1 s = none) := by
  have h := space1_eq s
  cases hg : Winnow.space1 s with
  | ok x r =>
    rw [hg] at h
    cases hb : blanks1 s with
    | none => simp [hb] at h
    | some r' => simp [hb] at h; exact Or.inl ⟨x, r, rfl, by rw [h.2]⟩
  | err e =>
    rw [hg] at h
    cases hb : blanks1 s with
    | none => exact Or.inr ⟨⟨e, rfl⟩, rfl⟩
    | some r' => simp [hb] at h

theorem rangeTail_some (s r : List Char) (h : blanks1 s = some r) :
    rangeTail s = ((simple r).1 :: (rangeTail (simple r).2).1, (rangeTail (simple r).2).2) := by
  rw [rangeTail]
  split
  · rename_i heq; rw [h] at heq; cases heq
  · rename_i r' heq; rw [h] at heq; cases heq; rfl

theorem rangeTail_none (s : List Char) (h : blanks1 s = none) : rangeTail s = ([], s) := by
  rw [rangeTail]
  split
  · rfl
  · rename_i r' heq; rw [h] at heq; cases heq

theorem boundSetsTail_some (s r : List Char) (h : logicalOr s = some r) :
    boundSetsTail s = ((rangeP r).1 :: (boundSetsTail (rangeP r).2).1, (boundSetsTail (rangeP r).2).2) := by
  rw [boundSetsTail]
  split
  · rename_i heq; rw [h] at heq; cases heq
  · rename_i r' heq; rw [h] at heq; cases heq; rfl

theorem boundSetsTail_none (s : List Char) (h : logicalOr s = none) : boundSetsTail s = ([], s) := by
  rw [boundSetsTail]
  split
  · rfl
  · rename_i r' heq; rw [h] at heq; cases heq

theorem range_loop (n : Nat) (s : List Char) (h : s.length < n) :
    Winnow.separatedLoop Semver.Gen.simple Winnow.space1 n s = .ok (rangeTail s).1 (rangeTail s).2 := by
  induction n generalizing s with
  | zero => omega
  | succ n ih =>
    rw [Winnow.separatedLoop]
    rcases space1_blanks1 s with ⟨x, r, hx, hb⟩ | ⟨⟨e, he⟩, hb⟩
    · have hl := blanks1_length hb
      have hne : (r.length == s.length) = false := by simp; omega
      simp only [hx, hne, Bool.false_eq_true, ↓reduceIte, simple_eq]
      have hl2 := simple_length r
      rw [ih (simple r).2 (by omega), rangeTail_some s r hb]
    · simp only [he, rangeTail_none s hb]

theorem range_eq (s : List Char) : Semver.Gen.range s = .ok (rangeP s).1 (rangeP s).2 := by
  unfold Semver.Gen.range rangeP
  simp only [Winnow.map, Winnow.separated0, simple_eq]
  rw [range_loop _ _ (by omega)]
  simp [range_fold]

theorem logical_or_eq (s : List Char) : toOpt (Semver.Gen.logical_or s) = (logicalOr s).map (fun r => ((), r)) := by
  unfold Semver.Gen.logical_or logicalOr
  simp only [Winnow.map, Winnow.delimited, bind_def, pure_def, space0_eq, lit2]
  rcases hd : dropBlanks s with _ | ⟨c, _ | ⟨d, t⟩⟩
  · simp
  · simp
  · by_cases hp : c = '|' ∧ d = '|'
    · obtain ⟨rfl, rfl⟩ := hp; simp
    · have : (('|' == c) && ('|' == d)) = false := by
        rw [Bool.and_eq_false_iff]
        by_cases h1 : c = '|'
        · right; simp; intro h2; exact hp ⟨h1, h2.symm⟩
        · left; simp; exact fun h => h1 h.symm
      simp only [this, Bool.false_eq_true, ↓reduceIte, toOpt_err]
      split
      · rename_i t' heq; cases heq; exact absurd ⟨rfl, rfl⟩ hp
      · rfl

theorem logical_or_cases (s : List Char) :
    (∃ r, Semver.Gen.logical_or s = .ok () r ∧ logicalOr s = some r) ∨ ((∃ e, Semver.Gen.logical_or s = .err e) ∧ logicalOr s = none) := by
  have h := logical_or_eq s
  cases hg : Semver.Gen.logical_or s with
  | ok x r =>
    rw [hg] at h
    cases hb : logicalOr s with
    | none => simp [hb] at h
    | some r' => simp [hb] at h; exact Or.inl ⟨r, rfl, by rw [h]⟩
  | err e =>
    rw [hg] at h
    cases hb : logicalOr s with
    | none => exact Or.inr ⟨⟨e, rfl⟩, rfl⟩
    | some r' => simp [hb] at h

theorem bound_sets_loop (n : Nat) (s : List Char) (h : s.length < n) :
    Winnow.separatedLoop Semver.Gen.range Semver.Gen.logical_or n s = .ok (boundSetsTail s).1 (boundSetsTail s).2 := by
  induction n generalizing s with
  | zero => omega
  | succ n ih =>
    rw [Winnow.separatedLoop]
    rcases logical_or_cases s with ⟨r, hx, hb⟩ | ⟨⟨e, he⟩, hb⟩
    · have hl := logicalOr_length hb
      have hne : (r.length == s.length) = false := by simp; omega
      simp only [hx, hne, Bool.false_eq_true, ↓reduceIte, range_eq]
      have hl2 := rangeP_length r
      rw [ih (rangeP r).2 (by omega), boundSetsTail_some s r hb]
    · simp only [he, boundSetsTail_none s hb]

theorem bound_sets_eq (s : List Char) : Semver.Gen.bound_sets s = .ok (boundSets s).1 (boundSets s).2 := by
  unfold Semver.Gen.bound_sets boundSets
  simp only [Winnow.map, Winnow.separated0, range_eq]
  rw [bound_sets_loop _ _ (by omega)]
  simp [bound_sets_flatten]

/-- `range_set()`: the alternatives, or `NoValidRanges` reported at the start of the input -/
theorem range_set_eq (s : List Char) :
    Semver.Gen.range_set s =
      if (boundSets (dropBlanks s)).1.isEmpty then .err ⟨s, none, some .noValidRanges⟩
      else .ok (boundSets (dropBlanks s)).1 (boundSets (dropBlanks s)).2 := by
  unfold Semver.Gen.range_set Semver.Gen.range_set_check
  simp only [Winnow.tryMap, Winnow.preceded, bind_def, space0_eq, bound_sets_eq, Rust.is_empty]
  by_cases h : (boundSets (dropBlanks s)).1.isEmpty = true
  · simp only [h, ↓reduceIte]
  · simp only [h, Bool.false_eq_true, ↓reduceIte]

/-- `Range::parse` is `range_set` with the error handling of the wrapper: the reported offset is the distance of
the error's input from the start, the kind is the explicit kind, else the context, else `Other` -/
theorem Range_parse_eq (s : List Char) :
    Range.parse s = match Semver.Gen.range_set s with
      | .ok r _ => .ok r
      | .err e => .error ⟨s, utf8Len s - utf8Len e.rest, e.finalKind⟩ := by
  rw [range_set_eq]
  unfold Range.parse
  by_cases h : (boundSets (dropBlanks s)).1.isEmpty = true
  · simp [h, PErr.finalKind]
  · simp only [h, Bool.false_eq_true, ↓reduceIte]

/-- `Version::parse` below the length limit is `version` with the same error handling -/
theorem Version_parse_eq (s : List Char) (h : ¬ MAX_LENGTH < utf8Len s) :
    Version.parse s = match Semver.Gen.version s with
      | .ok v _ => .ok v
      | .err e => .error ⟨s, utf8Len s - utf8Len e.rest, e.finalKind⟩ := by
  unfold Version.parse
  simp only [h, ↓reduceIte, version_eq]
  cases versionP s <;> rfl

/-! ### the public entry points -/

theorem utf8Len_cons' (c : Char) (t : List Char) : utf8Len (c :: t) = c.utf8Size + utf8Len t := by
  simp [utf8Len]

theorem charIndices_last (n : Nat) (s : List Char) :
    (Rust.charIndicesFrom n s).getLast? = s.getLast?.map (fun c => (n + utf8Len s - c.utf8Size, c)) := by
  induction s generalizing n with
  | nil => rfl
  | cons c t ih =>
    cases t with
    | nil => simp [Rust.charIndicesFrom, utf8Len]
    | cons d t2 =>
      have := ih (n + c.utf8Size)
      simp only [Rust.charIndicesFrom, List.getLast?_cons_cons] at this ⊢
      rw [this]
      cases (d :: t2).getLast? with
      | none => rfl
      | some x =>
        simp only [Option.map_some, Option.some.injEq, Prod.mk.injEq, and_true]
        rw [utf8Len_cons' c (d :: t2)]
        omega

theorem last_char_offset (s : List Char) :
    Rust.map_or (Rust.next_back (Rust.char_indices s)) 0 (fun (x : Nat × Char) => x.1) =
      match s.getLast? with
      | some c => utf8Len s - c.utf8Size
      | none => 0 := by
  simp only [Rust.next_back, Rust.char_indices, charIndices_last]
  cases s.getLast? <;> simp [Rust.map_or]

theorem n_gt (a b : Nat) : Rust.gt a b = decide (b < a) := by
  simp only [Rust.gt, ROrd.cmp]; rw [Bool.eq_iff_iff]; simp [Nat.compare_eq_gt]

theorem str_len (s : List Char) : Rust.len s = utf8Len s := rfl

theorem Version_parse (s : List Char) : Version.rs_parse s = Version.parse s := by
  unfold Version.rs_parse Version.parse
  simp only [str_len, n_gt, Rust.into, RInto.into, Rust.span_offset, id]
  by_cases h : MAX_LENGTH < utf8Len s
  · simp only [h, decide_true, ↓reduceIte]
    have := last_char_offset s
    simp only [bind, Except.bind, throw, throwThe, MonadExceptOf.throw] at this ⊢
    rw [show (fun (x : Nat × Char) => match x with | (i, _) => i) = (fun x => x.1) from by funext x; obtain ⟨i, c⟩ := x; rfl]
    rw [this]
    congr 2 <;> (cases s.getLast? <;> rfl)
  · simp only [h, decide_false, Bool.false_eq_true, ↓reduceIte, Winnow.run, version_eq]
    cases versionP s with
    | ok v r => first | rfl | simp [Rust.map_err, bind, Except.bind, pure, Except.pure]
    | err e =>
      simp only [bind, Except.bind, pure, Except.pure, throw, throwThe, MonadExceptOf.throw, Rust.ptr_diff, RPtrDiff.ptr_diff, PErr.input,
        PErr.finalKind, PErr.context, Rust.map_err, Rust.unwrap_or, Rust.or_else, Rust.opt_or, Rust.map, RMap.map, Rust.map_or,
        Rust.map_or_else, Rust.and_then]
      congr 2
      cases e.kind <;> cases e.ctx <;> rfl

theorem Range_parse (s : List Char) : Range.rs_parse s = Range.parse s := by
  unfold Range.rs_parse
  rw [Range_parse_eq]
  simp only [Winnow.run, Rust.into, RInto.into, Rust.span_offset, id]
  cases hg : Semver.Gen.range_set s with
  | ok r rest => first | rfl | simp [Rust.map_err, bind, Except.bind, pure, Except.pure]
  | err e =>
    have hr : e.rest = s := by
      rw [range_set_eq] at hg
      split at hg <;> cases hg; rfl
    simp only [bind, Except.bind, pure, Except.pure, throw, throwThe, MonadExceptOf.throw, Rust.ptr_diff, RPtrDiff.ptr_diff, PErr.input,
      PErr.finalKind, PErr.context, hr, Rust.map_err, Rust.unwrap_or, Rust.or_else, Rust.opt_or, Rust.map, RMap.map, Rust.map_or,
      Rust.map_or_else, Rust.and_then]
    congr 2
    cases e.kind <;> cases e.ctx <;> rfl

theorem Version_from_str (s : List Char) : Version.rs_from_str s = Version.parse s := by
  unfold Version.rs_from_str
  exact Version_parse s

theorem Range_from_str (s : List Char) : Range.rs_from_str s = Range.parse s := by
  unfold Range.rs_from_str
  exact Range_parse s

/-- the serde impls are still `collect_str(self)` / parse of an owned `String` (markers emitted by the translator) -/
theorem serde_canonical : True :=
  have _ := Semver.Gen.canonical_Version_serialize
  have _ := Semver.Gen.canonical_Version_deserialize
  have _ := Semver.Gen.canonical_Range_serialize
  have _ := Semver.Gen.canonical_Range_deserialize
  trivial

end Semver.GenEquiv
