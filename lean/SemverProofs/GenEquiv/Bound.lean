import SemverProofs.GenEquiv.Version
import SemverModel.RangeFmt
import SemverProofs.Lemmas.VersionOrder
/-!
# The definitions extracted from `src/range.rs` are the model's definitions (bounds and bound sets)
-/
namespace Semver.GenEquiv
open Semver Rust Pred Bound

/-- the crate's `Predicate`, `Bound`, `BoundSet`, `Range`, `Operation`, `Partial` still have the variants and
fields of the model's types -/
theorem shapes_range : True :=
  have _ := Semver.Gen.shape_Predicate
  have _ := Semver.Gen.shape_Bound
  have _ := Semver.Gen.shape_BoundSet
  have _ := Semver.Gen.build_BoundSet
  have _ := Semver.Gen.shape_Range
  have _ := Semver.Gen.shape_Operation
  have _ := Semver.Gen.shape_Partial
  have _ := Semver.Gen.build_Partial
  trivial

theorem partial_cmp_Bound : True := Semver.Gen.partial_cmp_is_cmp_Bound

/-! ### comparisons of versions as the extracted code writes them -/

theorem v_cmp (a b : Version) : ROrd.cmp a b = cmpVersion a b := Version_cmp a b
theorem v_lt (a b : Version) : Rust.lt a b = vlt a b := by simp [Rust.lt, v_cmp, vlt]
theorem v_le (a b : Version) : Rust.le a b = vle a b := by simp [Rust.le, v_cmp, vle]
theorem v_eq (a b : Version) : REq.eq a b = a.beq b := Version_eq a b

theorem Pred_eq (a b : Pred) : Pred.rs_eq a b = a.beq b := by
  cases a <;> cases b <;> simp [Pred.rs_eq, Pred.beq, v_eq]

theorem Bound_eq (a b : Bound) : Bound.rs_eq a b = a.beq b := by
  cases a <;> cases b <;> simp [Bound.rs_eq, Bound.beq, REq.eq, Pred_eq]

theorem BoundSet_eq (a b : BoundSet) : BoundSet.rs_eq a b = a.beq b := by
  simp [BoundSet.rs_eq, BoundSet.beq, REq.eq, Bound_eq]

theorem Pred_flip (p : Pred) : p.rs_flip = p.flip := by cases p <;> rfl
theorem Bound_upper : Bound.rs_upper = up unb := rfl
theorem Bound_lower : Bound.rs_lower = lo unb := rfl
theorem Bound_predicate (b : Bound) : b.rs_predicate = b.predicate := by cases b <;> rfl

theorem n_le (a b : Nat) : Rust.le a b = decide (a ≤ b) := by
  simp only [Rust.le, ROrd.cmp]
  rw [Bool.eq_iff_iff]
  simp [Nat.compare_eq_gt]

theorem Bound_is_valid (b : Bound) : b.rs_is_valid = b.isValid := by
  rcases b with (p | p) <;> cases p <;>
    simp [Bound.rs_is_valid, Bound.isValid, n_le, Rust.map_or, Rust.is_some_and, Rust.is_none_or, Rust.unwrap_or, Rust.map, RMap.map]

/-- the version order is total: `a <= b` is `!(b < a)` (used when a test is written the other way round) -/
theorem vle_not_vlt (a b : Version) : vle a b = !vlt b a := by
  have h : cmpVersion a b = (cmpVersion b a).swap := Std.OrientedCmp.eq_swap
  unfold vle vlt
  rw [h]; cases cmpVersion b a <;> rfl

theorem Bound_cmp (a b : Bound) : Bound.rs_cmp a b = cmpBound a b := by
  rcases a with (p | p) <;> rcases b with (q | q) <;> cases p <;> cases q <;>
    simp [Bound.rs_cmp, cmpBound, v_cmp, v_lt, v_le] <;>
    -- the same table with a test negated or turned round
    (simp only [vle_not_vlt]; repeat' split) <;> simp_all

theorem b_cmp (a b : Bound) : ROrd.cmp a b = cmpBound a b := Bound_cmp a b
theorem b_lt (a b : Bound) : Rust.lt a b = a.lt b := by simp [Rust.lt, b_cmp, Bound.lt]
theorem b_le (a b : Bound) : Rust.le a b = a.le b := by simp [Rust.le, b_cmp, Bound.le]
theorem b_ge (a b : Bound) : Rust.ge a b = !(a.lt b) := by
  simp only [Rust.ge, b_cmp, Bound.lt]; cases cmpBound a b <;> rfl
theorem b_gt (a b : Bound) : Rust.gt a b = !(a.le b) := by
  simp only [Rust.gt, b_cmp, Bound.le]; cases cmpBound a b <;> rfl
theorem b_max (a b : Bound) : Rust.max a b = Bound.max a b := by simp [Rust.max, Bound.max, b_lt]
theorem b_min (a b : Bound) : Rust.min a b = Bound.min a b := by simp [Rust.min, Bound.min, b_lt]

theorem BoundSet_new (l u : Bound) : BoundSet.rs_new l u = BoundSet.new l u := by
  unfold BoundSet.rs_new BoundSet.new BoundSet.newCore
  simp only [id_run, id_pure, Bound_is_valid]
  by_cases hv : (!l.isValid || !u.isValid) = true
  · simp [hv]
  · simp only [hv, Bool.false_eq_true, ↓reduceIte]
    rcases l with (p | p) <;> rcases u with (q | q) <;> cases p <;> cases q <;>
      simp [b_lt, v_eq] <;> (repeat' split) <;> simp_all

theorem BoundSet_at_least (p : Pred) : BoundSet.rs_at_least p = BoundSet.atLeast p := by
  simp [BoundSet.rs_at_least, BoundSet.atLeast, BoundSet_new, Bound_upper]
theorem BoundSet_at_most (p : Pred) : BoundSet.rs_at_most p = BoundSet.atMost p := by
  simp [BoundSet.rs_at_most, BoundSet.atMost, BoundSet_new, Bound_lower]
theorem BoundSet_exact (v : Version) : BoundSet.rs_exact v = BoundSet.exact v := by
  simp [BoundSet.rs_exact, BoundSet.exact, BoundSet_new]

theorem n_eq (a b : Nat) : REq.eq a b = (a == b) := rfl

-- so that a helper function someone extracts (translated with `@[simp]`) is normalised like inline code
attribute [simp] n_eq v_le v_lt v_eq

theorem BoundSet_satisfies (s : BoundSet) (v : Version) : s.rs_satisfies v = s.satisfies v := by
  obtain ⟨u, l⟩ := s
  unfold BoundSet.rs_satisfies BoundSet.satisfies BoundSet.within BoundSet.gate sameTuple
  simp only [id_run, id_pure, v_le, v_lt, Version.rs_is_prerelease, Version.isPre, Rust.is_empty, n_eq, Rust.unreachable]
  rcases l with (p | p) <;> rcases u with (q | q) <;> cases p <;> cases q <;>
    simp <;> (repeat' split) <;> simp_all [Version.rs_is_prerelease, Rust.is_empty, Bool.and_assoc] <;>
    first
      | (intro a b; cases ‹_ ∨ _› <;> simp_all)
      | (intros; cases ‹_ ∨ _› <;> simp_all)
      | grind

theorem BoundSet_min_version (s : BoundSet) : s.rs_min_version = s.minVersion := by
  obtain ⟨u, l⟩ := s
  have hs : (fun v => BoundSet.rs_satisfies ⟨u, l⟩ v) = fun v => BoundSet.satisfies ⟨u, l⟩ v := by
    funext v; exact BoundSet_satisfies _ v
  unfold BoundSet.rs_min_version BoundSet.minVersion BoundSet.minCandidates
  simp only [id_run, id_pure, id_bind, Version.rs_is_prerelease, Version.isPre, Rust.is_empty, Rust.find, hs]
  rcases l with (p | p) <;> cases p <;> simp <;> (try split) <;> (try simp_all) <;> (try rfl)

theorem BoundSet_allows_all (s o : BoundSet) : s.rs_allows_all o = s.allowsAll o := by
  simp [BoundSet.rs_allows_all, BoundSet.allowsAll, b_le]

theorem BoundSet_allows_any (s o : BoundSet) : s.rs_allows_any o = s.allowsAny o := by
  simp only [BoundSet.rs_allows_any, BoundSet.allowsAny, b_lt, b_ge, b_le, b_gt, id_run, id_pure]
  -- whatever shape the two tests are written in: decide by cases on their outcomes
  try (cases h1 : o.upper.lt s.lower <;> cases h2 : s.upper.lt o.lower <;> simp_all)

theorem BoundSet_intersect (s o : BoundSet) : s.rs_intersect o = s.intersect o := by
  simp [BoundSet.rs_intersect, BoundSet.intersect, b_max, b_min, BoundSet_new]

/-- what `BoundSet::difference` returns when it does not panic -/
def _root_.Semver.DiffRes.value : DiffRes → Option (List BoundSet)
  | .panic => none
  | .none => none
  | .some l => some l

/-- the extracted `difference` (where `unwrap()` of `None` is `default`) is the model's wherever the
model does not report a panic; that it never does on well-formed sets is `C06`/`C08` -/
theorem BoundSet_difference (s o : BoundSet) (h : s.difference o ≠ .panic) :
    s.rs_difference o = (s.difference o).value := by
  unfold BoundSet.rs_difference BoundSet.difference at *
  simp only [id_run, id_pure, BoundSet_intersect, b_lt, b_ge, b_le, b_gt, Pred_flip, Bound_predicate, BoundSet_new, Rust.map, RMap.map]
  cases hi : s.intersect o with
  | none => simp [DiffRes.value]
  | some ov =>
    simp only [hi] at h
    have he : REq.eq ov s = ov.beq s := BoundSet_eq ov s
    simp only [he]
    first
    | -- the chain of early returns as written in the crate
      (by_cases h1 : ov.beq s = true
       · simp [h1, DiffRes.value]
       · simp only [h1, Bool.false_eq_true, ↓reduceIte] at h ⊢
         by_cases h2 : (s.lower.lt ov.lower && ov.upper.lt s.upper) = true
         · simp only [h2, ↓reduceIte] at h ⊢
           cases ha : BoundSet.new s.lower (up ov.lower.predicate.flip) <;>
             cases hb : BoundSet.new (lo ov.upper.predicate.flip) s.upper <;>
             simp_all [DiffRes.value, Rust.unwrap]
         · simp only [h2, Bool.false_eq_true, ↓reduceIte] at h ⊢
           by_cases h3 : s.lower.lt ov.lower = true
           · simp only [h3, ↓reduceIte]
             cases BoundSet.new s.lower (up ov.lower.predicate.flip) <;> simp [DiffRes.value]
           · simp only [h3, Bool.false_eq_true, ↓reduceIte]
             cases BoundSet.new (lo ov.upper.predicate.flip) s.upper <;> simp [DiffRes.value])
    | -- any other arrangement of the same tests: decide by cases on their outcomes
      (cases h1 : ov.beq s <;> cases h2 : s.lower.lt ov.lower <;> cases h3 : ov.upper.lt s.upper <;>
        cases ha : BoundSet.new s.lower (up ov.lower.predicate.flip) <;>
        cases hb : BoundSet.new (lo ov.upper.predicate.flip) s.upper <;>
        simp_all [DiffRes.value, Rust.unwrap])

theorem v_display (v : Version) : Rust.display v = v.render := Version_fmt v

/-- the extracted `Display for BoundSet` writes what the model renders (where the model renders at all:
its `none` is the `unreachable!` arm) -/
theorem BoundSet_fmt (s : BoundSet) (r : List Char) (h : s.render = some r) : s.rs_fmt = r := by
  obtain ⟨u, l⟩ := s
  unfold BoundSet.render at h
  unfold BoundSet.rs_fmt
  simp only [id_run, id_pure, v_display, v_eq]
  rcases l with (p | p) <;> rcases u with (q | q) <;> cases p <;> cases q <;> simp at h ⊢ <;>
    (try split at h) <;> simp_all

end Semver.GenEquiv
