import SemverModel.Range
/-!
# Compositions of `intersect` and `difference` (C15)

`eval` threads `Option<Range>` results the way a caller does: an empty (`None`) operand makes an
intersection empty, leaves a difference's left operand unchanged, and an empty left operand stays
empty.  The outer `Option` is `none` when an operation panics.
-/
namespace Semver

inductive Expr where
  | leaf (r : Range)
  | isect (a b : Expr)
  | diff (a b : Expr)

def Expr.eval : Expr → Option (Option Range)
  | .leaf r => some (some r)
  | .isect a b =>
    match a.eval, b.eval with
    | some (some x), some (some y) => some (Range.intersect x y)
    | some _, some _ => some none
    | _, _ => none
  | .diff a b =>
    match a.eval, b.eval with
    | some (some x), some (some y) => Range.difference x y
    | some (some x), some none => some (some x)
    | some none, some _ => some none
    | _, _ => none

end Semver
