import SemverModel.Progress
import SemverModel.Range
/-!
# `Range::parse` (`src/range.rs:361-385, 595-1125`)

Inside `simple` every error is swallowed by `alt` (its last branch, `garbage`, always succeeds),
so the sub-parsers return `Option`: `none` = backtrack.  Tables are written arm for arm.
-/
namespace Semver
open Pred Bound

structure Partial where
  major : Option Nat
  minor : Option Nat
  patch : Option Nat
  pre : List Ident
  build : List Ident
deriving Repr

/-- `From<Partial> for Version` -/
def Partial.toVersion (p : Partial) : Version :=
  ⟨p.major.getD 0, p.minor.getD 0, p.patch.getD 0, p.pre, p.build⟩

/-- `component()`: `alt((x_or_asterisk -> None, number -> Some))` -/
def component (s : List Char) : Option (Option Nat × List Char) :=
  match s with
  | 'x' :: t => some (none, t)
  | 'X' :: t => some (none, t)
  | '*' :: t => some (none, t)
  | _ =>
    match number s with
    | .ok v r => some (some v, r)
    | .err _ => none

/-- `opt(preceded(literal("."), component))` -/
def dotComponent (s : List Char) : Option (Option Nat) × List Char :=
  match s with
  | '.' :: t =>
    match component t with
    | some (c, r) => (some c, r)
    | none => (none, s)
  | _ => (none, s)

/-- `opt(literal("v"))` -/
def stripV (s : List Char) : List Char :=
  match s with
  | 'v' :: t => t
  | _ => s

/-- `partial_version()` after the optional `v` and blanks, including the normalisation after the first
wildcard -/
def partialCore (s2 : List Char) : Option (Partial × List Char) :=
  match component s2 with
  | none => none
  | some (major, r1) =>
    let mi := dotComponent r1
    let pa := dotComponent mi.2
    let ex := if pa.1.isSome then extras pa.2 else (([], []), pa.2)
    let minor := major.bind (fun _ => mi.1.join)
    let patch := minor.bind (fun _ => pa.1.join)
    let q := if patch.isSome then ex.1 else ([], [])
    some (⟨major, minor, patch, q.1, q.2⟩, ex.2)

/-- `partial_version()` -/
def partialVersion (s : List Char) : Option (Partial × List Char) :=
  partialCore (dropBlanks (stripV s))

inductive Operation where
  | exact | gt | ge | lt | le
deriving DecidableEq, Repr

/-- `operation()`: `alt((">=", ">", "=", "<=", "<"))` -/
def operation (s : List Char) : Option (Operation × List Char) :=
  match s with
  | [] => none
  | c :: rest =>
    if c = '>' then
      match rest with
      | '=' :: t => some (.ge, t)
      | _ => some (.gt, rest)
    else if c = '=' then some (.exact, rest)
    else if c = '<' then
      match rest with
      | '=' :: t => some (.le, t)
      | _ => some (.lt, rest)
    else none

def zero0 : Version := Version.mk4 0 0 0 0

/-- the match of `primitive()` -/
def primitiveSet (op : Operation) (p : Partial) : Option BoundSet :=
  match op, p with
  | .gt, ⟨none, _, _, _, _⟩ => BoundSet.atMost (exc zero0)
  | .lt, ⟨none, _, _, _, _⟩ => BoundSet.atMost (exc zero0)
  | _, ⟨none, _, _, _, _⟩ => BoundSet.atLeast (inc (Version.mk3 0 0 0))
  | .ge, p => BoundSet.atLeast (inc p.toVersion)
  | .gt, ⟨some major, some minor, none, _, _⟩ => BoundSet.atLeast (inc (Version.mk3 major (minor + 1) 0))
  | .gt, ⟨some major, none, none, _, _⟩ => BoundSet.atLeast (inc (Version.mk3 (major + 1) 0 0))
  | .gt, p => BoundSet.atLeast (exc p.toVersion)
  | .lt, ⟨some major, some minor, none, _, _⟩ => BoundSet.atMost (exc (Version.mk4 major minor 0 0))
  | .lt, ⟨major, minor, patch, pre, build⟩ =>
    BoundSet.atMost (exc ⟨major.getD 0, minor.getD 0, patch.getD 0, pre, build⟩)
  | .le, ⟨major, none, none, _, _⟩ =>
    BoundSet.atMost (inc (Version.mk3 (major.getD 0) MAX_SAFE_INTEGER MAX_SAFE_INTEGER))
  | .le, ⟨major, minor, none, _, _⟩ =>
    BoundSet.atMost (inc (Version.mk3 (major.getD 0) (minor.getD 0) MAX_SAFE_INTEGER))
  | .le, p => BoundSet.atMost (inc p.toVersion)
  | .exact, ⟨some major, some minor, some patch, pre, _⟩ => BoundSet.exact ⟨major, minor, patch, pre, []⟩
  | .exact, ⟨some major, some minor, _, _, _⟩ =>
    BoundSet.new (lo (inc (Version.mk3 major minor 0))) (up (exc (Version.mk4 major (minor + 1) 0 0)))
  | .exact, ⟨some major, _, _, _, _⟩ =>
    BoundSet.new (lo (inc (Version.mk3 major 0 0))) (up (exc (Version.mk4 (major + 1) 0 0 0)))

/-- `primitive()`: `(operation, preceded(space0, partial_version))` -/
def primitive (s : List Char) : Option (Option BoundSet × List Char) :=
  match operation s with
  | none => none
  | some (op, r) =>
    match partialVersion (dropBlanks r) with
    | none => none
    | some (p, r') => some (primitiveSet op p, r')

/-- the match of `partial()` -/
def partialSet (p : Partial) : Option BoundSet :=
  match p with
  | ⟨none, _, _, _, _⟩ => BoundSet.atLeast (inc (Version.mk3 0 0 0))
  | ⟨some major, none, _, _, _⟩ =>
    BoundSet.new (lo (inc (Version.mk3 major 0 0))) (up (exc (Version.mk4 (major + 1) 0 0 0)))
  | ⟨some major, some minor, none, _, _⟩ =>
    BoundSet.new (lo (inc (Version.mk3 major minor 0))) (up (exc (Version.mk4 major (minor + 1) 0 0)))
  | p => BoundSet.exact p.toVersion

/-- `partial()` -/
def partialP (s : List Char) : Option (Option BoundSet × List Char) :=
  match partialVersion s with
  | none => none
  | some (p, r) => some (partialSet p, r)

/-- `opt(literal(">"))` -/
def stripGt (s : List Char) : Bool × List Char :=
  match s with
  | '>' :: t => (true, t)
  | _ => (false, s)

/-- `tilde_gt()`: `("~", space0, opt(">"), space0)`; the flag says whether `>` was present -/
def tildeGt (s : List Char) : Option (Bool × List Char) :=
  match s with
  | '~' :: t =>
    let g := stripGt (dropBlanks t)
    some (g.1, dropBlanks g.2)
  | _ => none

/-- the match of `tilde()` -/
def tildeSet (gt : Bool) (p : Partial) : Option BoundSet :=
  match gt, p with
  | _, ⟨none, _, _, _, _⟩ => BoundSet.atLeast (inc (Version.mk3 0 0 0))
  | true, ⟨some major, none, none, _, _⟩ =>
    BoundSet.new (lo (inc (Version.mk3 major 0 0))) (up (exc (Version.mk4 (major + 1) 0 0 0)))
  | true, ⟨some major, some minor, patch, pre, _⟩ =>
    BoundSet.new (lo (inc ⟨major, minor, patch.getD 0, pre, []⟩)) (up (exc (Version.mk4 major (minor + 1) 0 0)))
  | false, ⟨some major, some minor, some patch, pre, _⟩ =>
    BoundSet.new (lo (inc ⟨major, minor, patch, pre, []⟩)) (up (exc (Version.mk4 major (minor + 1) 0 0)))
  | false, ⟨some major, some minor, none, _, _⟩ =>
    BoundSet.new (lo (inc (Version.mk3 major minor 0))) (up (exc (Version.mk4 major (minor + 1) 0 0)))
  | false, ⟨some major, none, none, _, _⟩ =>
    BoundSet.new (lo (inc (Version.mk3 major 0 0))) (up (exc (Version.mk4 (major + 1) 0 0 0)))
  | _, _ => none

/-- `tilde()` -/
def tilde (s : List Char) : Option (Option BoundSet × List Char) :=
  match tildeGt s with
  | none => none
  | some (gt, r) =>
    match partialVersion r with
    | none => none
    | some (p, r') => some (tildeSet gt p, r')

/-- the match of `caret()` -/
def caretSet (p : Partial) : Option BoundSet :=
  match p with
  | ⟨none, _, _, _, _⟩ => BoundSet.atLeast (inc (Version.mk3 0 0 0))
  | ⟨some 0, none, none, _, _⟩ => BoundSet.atMost (exc (Version.mk4 1 0 0 0))
  | ⟨some 0, some minor, none, _, _⟩ =>
    BoundSet.new (lo (inc (Version.mk3 0 minor 0))) (up (exc (Version.mk4 0 (minor + 1) 0 0)))
  | ⟨some major, none, none, _, _⟩ =>
    BoundSet.new (lo (inc (Version.mk3 major 0 0))) (up (exc (Version.mk4 (major + 1) 0 0 0)))
  | ⟨some major, some _minor, none, _, _⟩ =>
    BoundSet.new (lo (inc (Version.mk3 major _minor 0))) (up (exc (Version.mk4 (major + 1) 0 0 0)))
  | ⟨some major, some minor, some patch, pre, _⟩ =>
    BoundSet.new (lo (inc ⟨major, minor, patch, pre, []⟩))
      (up (exc (match major, minor, patch with
        | 0, 0, n => Version.mk4 0 0 (n + 1) 0
        | 0, n, _ => Version.mk4 0 (n + 1) 0 0
        | n, _, _ => Version.mk4 (n + 1) 0 0 0)))
  | _ => none

/-- `caret()`: `preceded(("^", space0), partial_version)` -/
def caret (s : List Char) : Option (Option BoundSet × List Char) :=
  match s with
  | '^' :: t =>
    match partialVersion (dropBlanks t) with
    | none => none
    | some (p, r) => some (caretSet p, r)
  | _ => none

/-- `space1` -/
def blanks1 (s : List Char) : Option (List Char) :=
  match s with
  | c :: t => if isBlank c then some (dropBlanks t) else none
  | [] => none

/-- the upper predicate of a hyphen range -/
def hyphenUpper (p : Partial) : Pred :=
  match p with
  | ⟨none, _, _, _, _⟩ => unb
  | ⟨some major, none, none, _, _⟩ => exc (Version.mk4 (major + 1) 0 0 0)
  | ⟨some major, some minor, none, _, _⟩ => exc (Version.mk4 major (minor + 1) 0 0)
  | p => inc p.toVersion

def hyphenSet (lower : Option Partial) (upper : Pred) : Option BoundSet :=
  match lower with
  | some l => BoundSet.new (lo (inc l.toVersion)) (up upper)
  | none =>
    match upper with
    | unb => BoundSet.atLeast (inc (Version.mk3 0 0 0))
    | u => BoundSet.atMost u

/-- `opt(partial_version)` -/
def optPartial (s : List Char) : Option Partial × List Char :=
  match partialVersion s with
  | some (p, r) => (some p, r)
  | none => (none, s)

/-- `literal("-")` -/
def dash (s : List Char) : Option (List Char) :=
  match s with
  | '-' :: r => some r
  | _ => none

/-- the upper part of `hyphen()`: `space1 "-" space1 partial_version` -/
def hyphenRest (s : List Char) : Option (Partial × List Char) :=
  match blanks1 s with
  | none => none
  | some r1 =>
    match dash r1 with
    | none => none
    | some r2 =>
      match blanks1 r2 with
      | none => none
      | some r3 => partialVersion r3

/-- `hyphen()`: `opt(partial_version) space1 "-" space1 partial_version` -/
def hyphen (s : List Char) : Option (Option BoundSet × List Char) :=
  let l := optPartial s
  match hyphenRest l.2 with
  | none => none
  | some (u, r4) => some (hyphenSet (l.1.filter (·.major.isSome)) (hyphenUpper u), r4)

/-- `peek(alt((space1, literal("||"), eof)))` -/
def atEnd (s : List Char) : Bool :=
  match s with
  | [] => true
  | '|' :: '|' :: _ => true
  | c :: _ => isBlank c

/-- `garbage()`: consume up to the next blank, `||` or end of input -/
def garbage : List Char → List Char
  | [] => []
  | c :: cs => if atEnd (c :: cs) then c :: cs else garbage cs

def terminated (r : Option (Option BoundSet × List Char)) : Option (Option BoundSet × List Char) :=
  match r with
  | some (b, rest) => if atEnd rest then some (b, rest) else none
  | none => none

/-- `simple()`: first alternative that succeeds and is followed by blank / `||` / end -/
def simple (s : List Char) : Option BoundSet × List Char :=
  match terminated (hyphen s) with
  | some x => x
  | none =>
  match terminated (primitive s) with
  | some x => x
  | none =>
  match terminated (partialP s) with
  | some x => x
  | none =>
  match terminated (tilde s) with
  | some x => x
  | none =>
  match terminated (caret s) with
  | some x => x
  | none => (none, garbage s)

/-! ### progress -/

theorem component_length {s c r} (h : component s = some (c, r)) : r.length < s.length := by
  unfold component at h
  split at h
  · cases h; simp
  · cases h; simp
  · cases h; simp
  · split at h
    · rename_i v r' h'
      cases h
      exact number_length h'
    · cases h

theorem dotComponent_length (s : List Char) : (dotComponent s).2.length ≤ s.length := by
  unfold dotComponent
  split
  · split
    · rename_i c r h
      have := component_length h
      simp; omega
    · simp
  · simp

theorem partialVersion_length {s p r} (h : partialVersion s = some (p, r)) : r.length < s.length := by
  unfold partialVersion partialCore at h
  simp only at h
  split at h
  · cases h
  · rename_i major r1 hc
    cases h
    have h1 := component_length hc
    have h2 := dotComponent_length r1
    have h3 := dotComponent_length (dotComponent r1).2
    have h4 := extras_length (dotComponent (dotComponent r1).2).2
    have h5 : (dropBlanks (stripV s)).length ≤ s.length := by
      have := dropBlanks_length_le (stripV s)
      have : (stripV s).length ≤ s.length := by unfold stripV; split <;> simp
      omega
    split <;> simp at * <;> omega

theorem operation_length {s o r} (h : operation s = some (o, r)) : r.length < s.length := by
  unfold operation at h
  split at h
  · cases h
  · rename_i c rest
    split at h
    · split at h <;> cases h <;> simp <;> omega
    · split at h
      · cases h; simp
      · split at h
        · split at h <;> cases h <;> simp <;> omega
        · cases h

theorem primitive_length {s b r} (h : primitive s = some (b, r)) : r.length < s.length := by
  unfold primitive at h
  split at h
  · cases h
  · rename_i op r1 ho
    split at h
    · cases h
    · rename_i p r' hp
      cases h
      have := operation_length ho
      have := partialVersion_length hp
      have := dropBlanks_length_le r1
      omega

theorem partialP_length {s b r} (h : partialP s = some (b, r)) : r.length < s.length := by
  unfold partialP at h
  split at h
  · cases h
  · rename_i p r' hp
    cases h
    exact partialVersion_length hp

theorem stripGt_length (s : List Char) : (stripGt s).2.length ≤ s.length := by
  unfold stripGt; split <;> simp

theorem tildeGt_length {s g r} (h : tildeGt s = some (g, r)) : r.length < s.length := by
  unfold tildeGt at h
  split at h
  · rename_i t
    simp only [Option.some.injEq, Prod.mk.injEq] at h
    obtain ⟨_, rfl⟩ := h
    have h0 := dropBlanks_length_le t
    have h1 := stripGt_length (dropBlanks t)
    have h2 := dropBlanks_length_le (stripGt (dropBlanks t)).2
    simp; omega
  · cases h

theorem tilde_length {s b r} (h : tilde s = some (b, r)) : r.length < s.length := by
  unfold tilde at h
  split at h
  · cases h
  · rename_i g r1 hg
    split at h
    · cases h
    · rename_i p r' hp
      cases h
      have := tildeGt_length hg
      have := partialVersion_length hp
      omega

theorem caret_length {s b r} (h : caret s = some (b, r)) : r.length < s.length := by
  unfold caret at h
  split at h
  · rename_i t
    split at h
    · cases h
    · rename_i p r' hp
      cases h
      have := partialVersion_length hp
      have := dropBlanks_length_le t
      simp; omega
  · cases h

theorem blanks1_length {s r} (h : blanks1 s = some r) : r.length < s.length := by
  unfold blanks1 at h
  split at h
  · rename_i c t
    split at h
    · cases h
      have := dropBlanks_length_le t
      simp; omega
    · cases h
  · cases h

theorem optPartial_length (s : List Char) : (optPartial s).2.length ≤ s.length := by
  unfold optPartial
  split
  · rename_i p r hp
    have := partialVersion_length hp
    simp; omega
  · simp

theorem hyphenRest_length {s u r} (h : hyphenRest s = some (u, r)) : r.length < s.length := by
  unfold hyphenRest at h
  split at h
  · cases h
  · rename_i r1 h1
    have := blanks1_length h1
    split at h
    · cases h
    · rename_i r2 h2
      have hd : r2.length < r1.length := by
        unfold dash at h2; split at h2 <;> cases h2; simp
      split at h
      · cases h
      · rename_i r3 h3
        have := blanks1_length h3
        have := partialVersion_length h
        omega

theorem hyphen_length {s b r} (h : hyphen s = some (b, r)) : r.length < s.length := by
  unfold hyphen at h
  simp only at h
  have hl := optPartial_length s
  split at h
  · cases h
  · rename_i u r4 h4
    cases h
    have := hyphenRest_length h4
    omega

theorem hyphen_some {s : List Char} {o : Option BoundSet} {r : List Char} (h : hyphen s = some (o, r)) :
    ∃ u, hyphenRest (optPartial s).2 = some (u, r) ∧
      o = hyphenSet ((optPartial s).1.filter (·.major.isSome)) (hyphenUpper u) := by
  unfold hyphen at h
  simp only at h
  split at h
  · cases h
  · rename_i u r4 h4
    cases h
    exact ⟨u, h4, rfl⟩

theorem hyphenRest_some {s : List Char} {u : Partial} {r : List Char} (h : hyphenRest s = some (u, r)) :
    ∃ r3, partialVersion r3 = some (u, r) := by
  unfold hyphenRest at h
  split at h
  · cases h
  · split at h
    · cases h
    · split at h
      · cases h
      · rename_i r3 _; exact ⟨r3, h⟩

theorem optPartial_some {s : List Char} {p : Partial} (h : (optPartial s).1 = some p) :
    ∃ r, partialVersion s = some (p, r) := by
  unfold optPartial at h
  split at h
  · rename_i p' r hp; simp at h; subst h; exact ⟨r, hp⟩
  · cases h

theorem garbage_length (s : List Char) : (garbage s).length ≤ s.length := by
  induction s with
  | nil => simp [garbage]
  | cons c cs ih =>
    unfold garbage
    split
    · simp
    · simp; omega

theorem terminated_eq {r x} (h : terminated r = some x) : r = some x := by
  unfold terminated at h
  split at h
  · split at h
    · cases h; rfl
    · cases h
  · cases h

theorem simple_length (s : List Char) : (simple s).2.length ≤ s.length := by
  unfold simple
  split
  · rename_i x h
    have := hyphen_length (b := x.1) (r := x.2) (terminated_eq h); omega
  · split
    · rename_i x h
      have := primitive_length (b := x.1) (r := x.2) (terminated_eq h); omega
    · split
      · rename_i x h
        have := partialP_length (b := x.1) (r := x.2) (terminated_eq h); omega
      · split
        · rename_i x h
          have := tilde_length (b := x.1) (r := x.2) (terminated_eq h); omega
        · split
          · rename_i x h
            have := caret_length (b := x.1) (r := x.2) (terminated_eq h); omega
          · exact garbage_length s

/-! ### the loops -/

/-- `separated(0.., simple, space1)` after its first element -/
def rangeTail (s : List Char) : List (Option BoundSet) × List Char :=
  match h : blanks1 s with
  | none => ([], s)
  | some r =>
    have : (simple r).2.length < s.length := by
      have := blanks1_length h
      have := simple_length r
      omega
    let t := rangeTail (simple r).2
    ((simple r).1 :: t.1, t.2)
termination_by s.length

/-- the fold of `range()`: intersection of all comparators; empty conjunction = no alternative -/
def foldSets (bs : List (Option BoundSet)) : List BoundSet :=
  match bs.filterMap id with
  | [] => []
  | first :: rest =>
    match rest.foldl (fun acc b => acc.bind (·.intersect b)) (some first) with
    | some s => [s]
    | none => []

/-- `range()` -/
def rangeP (s : List Char) : List BoundSet × List Char :=
  let x := simple s
  let t := rangeTail x.2
  (foldSets (x.1 :: t.1), t.2)

/-- `logical_or()`: `delimited(space0, "||", space0)` -/
def logicalOr (s : List Char) : Option (List Char) :=
  match dropBlanks s with
  | '|' :: '|' :: t => some (dropBlanks t)
  | _ => none

theorem rangeTail_length (s : List Char) : (rangeTail s).2.length ≤ s.length := by
  generalize hn : s.length = n
  induction n using Nat.strongRecOn generalizing s with
  | _ n ih =>
    rw [rangeTail]
    split
    · simp [hn]
    · rename_i r h
      have h1 := blanks1_length h
      have h2 := simple_length r
      have := ih (simple r).2.length (by omega) (simple r).2 rfl
      simp only
      omega

theorem rangeP_length (s : List Char) : (rangeP s).2.length ≤ s.length := by
  unfold rangeP
  have := simple_length s
  have := rangeTail_length (simple s).2
  simp; omega

theorem logicalOr_length {s r} (h : logicalOr s = some r) : r.length < s.length := by
  unfold logicalOr at h
  split at h
  · rename_i t ht
    cases h
    have := dropBlanks_length_le s
    have := dropBlanks_length_le t
    rw [ht] at *
    simp at *; omega
  · cases h

/-- `separated(0.., range, logical_or)` after its first element -/
def boundSetsTail (s : List Char) : List (List BoundSet) × List Char :=
  match h : logicalOr s with
  | none => ([], s)
  | some r =>
    have : (rangeP r).2.length < s.length := by
      have := logicalOr_length h
      have := rangeP_length r
      omega
    let t := boundSetsTail (rangeP r).2
    ((rangeP r).1 :: t.1, t.2)
termination_by s.length

/-- `bound_sets()` -/
def boundSets (s : List Char) : List BoundSet × List Char :=
  let x := rangeP s
  let t := boundSetsTail x.2
  ((x.1 :: t.1).flatten, t.2)

/-- `Range::parse` with `range_set()`: leading blanks skipped, no alternative = `NoValidRanges`
reported against the whole input at offset 0 (`try_map` resets the input) -/
def Range.parse (s : List Char) : Except SemverError Range :=
  let sets := (boundSets (dropBlanks s)).1
  if sets.isEmpty then .error ⟨s, 0, .noValidRanges⟩ else .ok sets

end Semver
