/-!
# Basic data: identifiers, versions, constants

Mirrors `src/lib.rs`: `Identifier` (250-256), `Version` (299-306),
`MAX_SAFE_INTEGER` (28), `MAX_LENGTH` (31).  `u64` fields are `Nat`; the places
where the Rust code could wrap are bounded by the invariants proved in
`SemverProofs` (see DESIGN.md §2.2).  Strings are `List Char`.
-/
namespace Semver

inductive Ident where
  | num (n : Nat)
  | alpha (s : List Char)
deriving DecidableEq, Repr, Inhabited

structure Version where
  major : Nat
  minor : Nat
  patch : Nat
  pre : List Ident
  build : List Ident
deriving DecidableEq, Repr, Inhabited

def MAX_SAFE_INTEGER : Nat := 900719925474099
def MAX_LENGTH : Nat := 256
/-- `u64::MAX + 1` -/
def U64 : Nat := 18446744073709551616

/-- `Version::is_prerelease` -/
def Version.isPre (v : Version) : Bool := !v.pre.isEmpty

/-- `From<(T,T,T)>` -/
def Version.mk3 (a b c : Nat) : Version := ⟨a, b, c, [], []⟩
/-- `From<(T,T,T,T)>` -/
def Version.mk4 (a b c d : Nat) : Version := ⟨a, b, c, [.num d], []⟩

end Semver
