import SemverModel.VersionOrd
/-!
# `Version::diff` (`src/lib.rs:379-445`)
-/
namespace Semver

inductive VersionDiff where
  | major | minor | patch | preMajor | preMinor | prePatch | preRelease
deriving DecidableEq, Repr

def VersionDiff.render : VersionDiff → String
  | .major => "major" | .minor => "minor" | .patch => "patch"
  | .preMajor => "premajor" | .preMinor => "preminor" | .prePatch => "prepatch"
  | .preRelease => "prerelease"

def Version.diff (self other : Version) : Option VersionDiff :=
  let c := cmpVersion self other
  if c = .eq then none
  else
    let selfHigher := c = .gt
    let high := if selfHigher then self else other
    let low := if selfHigher then other else self
    let highHasPre := high.isPre
    let lowHasPre := low.isPre
    if lowHasPre && !highHasPre then
      if low.patch == 0 && low.minor == 0 then some .major
      else if high.patch != 0 then some .patch
      else if high.minor != 0 then some .minor
      else some .major
    else if self.major != other.major then
      if highHasPre then some .preMajor else some .major
    else if self.minor != other.minor then
      if highHasPre then some .preMinor else some .minor
    else if self.patch != other.patch then
      if highHasPre then some .prePatch else some .patch
    else some .preRelease

end Semver
