import SemverModel.Basic
import SemverModel.Text
/-!
# `Display` for `Identifier` and `Version` (`src/lib.rs:258-265, 468-492`)
-/
namespace Semver

def Ident.render : Ident → List Char
  | .num n => renderNat n
  | .alpha s => s

/-- dot-joined identifiers -/
def renderIds : List Ident → List Char
  | [] => []
  | [a] => a.render
  | a :: b :: rest => a.render ++ '.' :: renderIds (b :: rest)

def renderCore (a b c : Nat) : List Char :=
  renderNat a ++ '.' :: (renderNat b ++ '.' :: renderNat c)

def Version.render (v : Version) : List Char :=
  renderCore v.major v.minor v.patch
    ++ (if v.pre.isEmpty then [] else '-' :: renderIds v.pre)
    ++ (if v.build.isEmpty then [] else '+' :: renderIds v.build)

end Semver
