import SemverModel.VersionOrd
/-!
# Interval bounds (`src/range.rs:20-340`)

`Pred` = `Predicate`, `Bound` = `Bound`, `cmpBound` = `impl Ord for Bound` (the 36-entry table),
`BoundSet` and its operations.  The places where the Rust code panics (`unreachable!`, `unwrap()`)
are made explicit by the `…Panics` predicates next to each operation; `SemverProofs` shows them
false on every reachable value.
-/
namespace Semver

inductive Pred where
  | exc (v : Version)
  | inc (v : Version)
  | unb
deriving Repr, Inhabited

inductive Bound where
  | lo (p : Pred)
  | up (p : Pred)
deriving Repr, Inhabited

open Pred Bound

/-- `Predicate::flip` -/
def Pred.flip : Pred → Pred
  | exc v => inc v
  | inc v => exc v
  | unb => unb

/-- `Bound::predicate` -/
def Bound.predicate : Bound → Pred
  | lo p => p
  | up p => p

/-- derived `PartialEq for Predicate` (uses `Version::eq`, which ignores build metadata) -/
def Pred.beq : Pred → Pred → Bool
  | exc a, exc b => a.beq b
  | inc a, inc b => a.beq b
  | unb, unb => true
  | _, _ => false

/-- derived `PartialEq for Bound` -/
def Bound.beq : Bound → Bound → Bool
  | lo p, lo q => p.beq q
  | up p, up q => p.beq q
  | _, _ => false

def vlt (a b : Version) : Bool := cmpVersion a b == .lt
def vle (a b : Version) : Bool := cmpVersion a b != .gt

/-- `impl Ord for Bound` (`src/range.rs:255-310`), arm for arm -/
def cmpBound : Bound → Bound → Ordering
  | lo unb, lo unb => .eq
  | up unb, up unb => .eq
  | up unb, _ => .gt
  | _, lo unb => .gt
  | lo unb, _ => .lt
  | _, up unb => .lt
  | up (inc a), up (inc b) => cmpVersion a b
  | up (inc a), lo (inc b) => cmpVersion a b
  | up (exc a), up (exc b) => cmpVersion a b
  | lo (inc a), up (inc b) => cmpVersion a b
  | lo (inc a), lo (inc b) => cmpVersion a b
  | lo (exc a), lo (exc b) => cmpVersion a b
  | lo (exc a), up (exc b) => if vle b a then .gt else .lt
  | lo (inc a), up (exc b) => if vle b a then .gt else .lt
  | up (inc a), lo (exc b) => if vlt b a then .gt else .lt
  | lo (exc a), up (inc b) => if vlt b a then .gt else .lt
  | lo (exc a), lo (inc b) => if vlt a b then .lt else .gt
  | up (inc a), up (exc b) => if vlt a b then .lt else .gt
  | lo (inc a), lo (exc b) => if vle a b then .lt else .gt
  | up (exc a), lo (exc b) => if vle a b then .lt else .gt
  | up (exc a), lo (inc b) => if vle a b then .lt else .gt
  | up (exc a), up (inc b) => if vle a b then .lt else .gt

def Bound.lt (a b : Bound) : Bool := cmpBound a b == .lt
def Bound.le (a b : Bound) : Bool := cmpBound a b != .gt

/-- Rust 1.95 `Ord::max`: `if other < self { self } else { other }` -/
def Bound.max (a b : Bound) : Bound := if b.lt a then a else b
/-- Rust 1.95 `Ord::min`: `if other < self { other } else { self }` -/
def Bound.min (a b : Bound) : Bound := if b.lt a then b else a

structure BoundSet where
  upper : Bound
  lower : Bound
deriving Repr, Inhabited

/-- derived `PartialEq for BoundSet` -/
def BoundSet.beq (a b : BoundSet) : Bool := a.upper.beq b.upper && a.lower.beq b.lower

/-- `Bound::is_valid`: no component of the bound's version exceeds MAX_SAFE_INTEGER -/
def Bound.isValid : Bound → Bool
  | lo (inc v) | lo (exc v) | up (inc v) | up (exc v) =>
    decide (v.major ≤ MAX_SAFE_INTEGER) && decide (v.minor ≤ MAX_SAFE_INTEGER) && decide (v.patch ≤ MAX_SAFE_INTEGER)
  | _ => true

/-- the `match` of `BoundSet::new` (after the validity check) -/
def BoundSet.newCore (l u : Bound) : Option BoundSet :=
  let general : Option BoundSet := if l.lt u then some ⟨u, l⟩ else none
  match l, u with
  | lo (exc v1), up (inc v2) => if v1.beq v2 then none else general
  | lo (inc v1), up (exc v2) => if v1.beq v2 then none else general
  | lo (inc v1), up (inc v2) =>
    if v1.beq v2 then some ⟨up (inc v2), lo (inc v1)⟩ else general
  | _, _ => general

/-- `BoundSet::new` -/
def BoundSet.new (l u : Bound) : Option BoundSet :=
  if !l.isValid || !u.isValid then none else BoundSet.newCore l u

def BoundSet.atLeast (p : Pred) : Option BoundSet := BoundSet.new (lo p) (up unb)
def BoundSet.atMost (p : Pred) : Option BoundSet := BoundSet.new (lo unb) (up p)
def BoundSet.exact (v : Version) : Option BoundSet := BoundSet.new (lo (inc v)) (up (inc v))

/-- the (Lower, Upper) shape every `unreachable!` arm relies on -/
def BoundSet.shaped (s : BoundSet) : Bool :=
  match s.lower, s.upper with
  | lo _, up _ => true
  | _, _ => false

def sameTuple (a b : Version) : Bool :=
  a.major == b.major && a.minor == b.minor && a.patch == b.patch

/-- the bounds test of `BoundSet::satisfies` (lines 69-91) -/
def BoundSet.within (s : BoundSet) (v : Version) : Bool :=
  let okLo := match s.lower with
    | lo (inc l) => vle l v
    | lo (exc l) => vlt l v
    | lo unb => true
    | _ => false   -- unreachable!: see `shaped`
  let okUp := match s.upper with
    | up (inc u) => vle v u
    | up (exc u) => vlt v u
    | up unb => true
    | _ => false   -- unreachable!
  okLo && okUp

/-- the prerelease gate of `BoundSet::satisfies` (lines 93-125) -/
def BoundSet.gate (s : BoundSet) (v : Version) : Bool :=
  let okLo := match s.lower with
    | lo (inc l) => l.isPre && sameTuple v l
    | lo (exc l) => l.isPre && sameTuple v l
    | _ => false
  let okUp := match s.upper with
    | up (inc u) => u.isPre && sameTuple v u
    | up (exc u) => u.isPre && sameTuple v u
    | _ => false
  okLo || okUp

/-- `BoundSet::satisfies` -/
def BoundSet.satisfies (s : BoundSet) (v : Version) : Bool :=
  s.within v && (!v.isPre || s.gate v)

/-- `BoundSet::allows_all` -/
def BoundSet.allowsAll (s o : BoundSet) : Bool := s.lower.le o.lower && o.upper.le s.upper

/-- `BoundSet::allows_any` -/
def BoundSet.allowsAny (s o : BoundSet) : Bool :=
  if o.upper.lt s.lower then false
  else if s.upper.lt o.lower then false
  else true

/-- `BoundSet::intersect` -/
def BoundSet.intersect (s o : BoundSet) : Option BoundSet :=
  BoundSet.new (Bound.max s.lower o.lower) (Bound.min s.upper o.upper)

/-- result of `BoundSet::difference`; `panic` marks the `unwrap()` of a `None` at lines 163-166 -/
inductive DiffRes where
  | panic
  | none
  | some (l : List BoundSet)
deriving Repr

/-- `BoundSet::difference` -/
def BoundSet.difference (s o : BoundSet) : DiffRes :=
  match s.intersect o with
  | .none => .some [s]
  | .some ov =>
    if ov.beq s then .none
    else if s.lower.lt ov.lower && ov.upper.lt s.upper then
      match BoundSet.new s.lower (up ov.lower.predicate.flip),
            BoundSet.new (lo ov.upper.predicate.flip) s.upper with
      | .some a, .some b => .some [a, b]
      | _, _ => .panic
    else if s.lower.lt ov.lower then
      match BoundSet.new s.lower (up ov.lower.predicate.flip) with
      | .some a => .some [a]
      | .none => .none
    else
      match BoundSet.new (lo ov.upper.predicate.flip) s.upper with
      | .some a => .some [a]
      | .none => .none

/-- `BoundSet::min_version`: candidates in increasing order, first one the set is satisfied by -/
def BoundSet.minCandidates (s : BoundSet) : List Version :=
  match s.lower with
  | lo (inc v) => [v]
  | lo (exc v) =>
    if v.isPre then [{ v with pre := v.pre ++ [.num 0] }]
    else
      let next := { v with patch := v.patch + 1 }
      [{ next with pre := next.pre ++ [.num 0] }, next]
  | lo unb => [Version.mk4 0 0 0 0, Version.mk3 0 0 0]
  | up _ => []

def BoundSet.minVersion (s : BoundSet) : Option Version :=
  s.minCandidates.find? (fun v => s.satisfies v)

end Semver
