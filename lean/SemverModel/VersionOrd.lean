import SemverModel.Basic
/-!
# Ordering, equality and hashing of versions

* `cmpIdent` — derived `Ord` on `Identifier` (`src/lib.rs:250`): `Numeric < AlphaNumeric`,
  numerics by value, strings bytewise (= by code point for well-formed UTF-8).
* `cmpPre` — the `match (len, len)` of `Ord for Version` (`src/lib.rs:599-608`) with the derived
  lexicographic `Ord` on `Vec<Identifier>`.
* `cmpVersion` — `Ord for Version` (`src/lib.rs:579-610`).
* `Version.beq` — `PartialEq for Version` (`src/lib.rs:448-455`), `hashKey` — what `Hash` feeds.
-/
namespace Semver

def cmpIdent : Ident → Ident → Ordering
  | .num a, .num b => compare a b
  | .num _, .alpha _ => .lt
  | .alpha _, .num _ => .gt
  | .alpha a, .alpha b => List.compareLex (compareOn Char.toNat) a b

def cmpPre : List Ident → List Ident → Ordering
  | [], [] => .eq
  | [], _ :: _ => .gt
  | _ :: _, [] => .lt
  | a :: as, b :: bs => List.compareLex cmpIdent (a :: as) (b :: bs)

def cmpVersion : Version → Version → Ordering :=
  compareLex (compareOn (·.major))
    (compareLex (compareOn (·.minor))
      (compareLex (compareOn (·.patch)) (fun a b => cmpPre a.pre b.pre)))

/-- `PartialEq for Version`: build metadata is not compared -/
def Version.beq (a b : Version) : Bool :=
  a.major == b.major && a.minor == b.minor && a.patch == b.patch && a.pre == b.pre

/-- the values `Hash for Version` feeds to the hasher -/
def Version.hashKey (v : Version) : Nat × Nat × Nat × List Ident :=
  (v.major, v.minor, v.patch, v.pre)

/-- `Iterator::max` over `Version`s: the last maximal element -/
def maxBy (cmp : α → α → Ordering) : List α → Option α
  | [] => none
  | x :: xs => some (xs.foldl (fun m y => if cmp m y = .gt then m else y) x)

/-- `Iterator::min`: the first minimal element -/
def minBy (cmp : α → α → Ordering) : List α → Option α
  | [] => none
  | x :: xs => some (xs.foldl (fun m y => if cmp m y = .gt then y else m) x)

end Semver

namespace Semver

/-- `a <= b` of `Ord for Version` -/
def Version.leB (a b : Version) : Bool := cmpVersion a b != .gt

/-- `slice::sort` on versions: a stable sort by `Ord` -/
def sortVersions (l : List Version) : List Version := l.mergeSort Version.leB

/-- one representative (the first) of every precedence class, in order of first occurrence -/
def dedupFirst : List Version → List Version
  | [] => []
  | x :: xs => x :: (dedupFirst xs).filter (fun y => cmpVersion x y != .eq)

/-- iteration order of a `BTreeSet<Version>` built by inserting the list left to right (`insert` keeps
the element already present) -/
def setOfVersions (l : List Version) : List Version := sortVersions (dedupFirst l)

end Semver
