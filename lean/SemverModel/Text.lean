/-!
# Character classes and number text

`isDigit` = winnow `digit1`'s class, `isBlank` = winnow `space0/space1`'s class
(space and tab), `isIdChar` = the identifier class of `src/lib.rs` `identifier()`.
-/
namespace Semver

def isDigit (c : Char) : Bool := '0' ≤ c && c ≤ '9'
def isBlank (c : Char) : Bool := c == ' ' || c == '\t'
def isAlpha (c : Char) : Bool := ('a' ≤ c && c ≤ 'z') || ('A' ≤ c && c ≤ 'Z')
def isIdChar (c : Char) : Bool := isDigit c || isAlpha c || c == '-'

def digitVal (c : Char) : Nat := c.toNat - 48
def digitChar (d : Nat) : Char := Char.ofNat (48 + d)

/-- value of a digit string, most significant first (`str::parse::<u64>` without the range check) -/
def valOf (ds : List Char) : Nat := ds.foldl (fun acc c => acc * 10 + digitVal c) 0

/-- decimal rendering, most significant first (`Display for u64`) -/
def renderNat (n : Nat) : List Char :=
  if _h : n < 10 then [digitChar n] else renderNat (n / 10) ++ [digitChar (n % 10)]
termination_by n
decreasing_by omega

/-- maximal prefix of characters satisfying `p` (`take_while(0.., p)`) -/
def span (p : Char → Bool) : List Char → List Char × List Char
  | [] => ([], [])
  | c :: cs => if p c then let r := span p cs; (c :: r.1, r.2) else ([], c :: cs)

/-- byte length in UTF-8 (`str::len`) -/
def utf8Len (s : List Char) : Nat := (s.map Char.utf8Size).sum

end Semver
