import SemverModel.Text
/-!
# Errors (`src/lib.rs:39-129, 135-190`)

`PErr` is what the crate's `SemverParseError` keeps of a winnow failure: the input slice at the
point the error was recorded (`rest`), the outermost `context`, and an explicit kind if one was set.
`SemverError` is the public error: original input, byte offset, kind.
-/
namespace Semver

inductive EKind where
  | maxLength
  | incompleteInput
  /-- `ParseIntError`: with an all-digit, non-empty text only `PosOverflow` can occur -/
  | parseIntOverflow
  /-- the other `ParseIntError`s (`Empty`, `InvalidDigit`): not produced on digit strings; present so that the
  meaning of `str::parse::<u64>` can be stated in full -/
  | parseIntEmpty
  | parseIntInvalidDigit
  | maxInt (n : Nat)
  | context (s : String)
  | noValidRanges
  | other
deriving DecidableEq, Repr

structure PErr where
  rest : List Char
  ctx : Option String
  kind : Option EKind
deriving Repr

/-- `.context(c)` on the error path: the context is overwritten, input and kind are kept -/
def PErr.withCtx (e : PErr) (c : String) : PErr := { e with ctx := some c }

structure SemverError where
  input : List Char
  offset : Nat
  kind : EKind
deriving DecidableEq, Repr

/-- the `kind` selection of `Version::parse` / `Range::parse` -/
def PErr.finalKind (e : PErr) : EKind :=
  match e.kind with
  | some k => k
  | none => match e.ctx with
    | some c => .context c
    | none => .other

/-- `SemverError::location`, computed on bytes like the crate does.
`none` models a panic (slice not on a character boundary or out of range). -/
def byteLen (c : Char) : Nat := c.utf8Size

/-- split `s` at byte offset `off`; `none` if `off` is not a character boundary of `s` -/
def splitAtByte : List Char → Nat → Option (List Char × List Char)
  | s, 0 => some ([], s)
  | [], _ + 1 => none
  | c :: cs, n + 1 =>
    if c.utf8Size ≤ n + 1 then
      match splitAtByte cs (n + 1 - c.utf8Size) with
      | some (a, b) => some (c :: a, b)
      | none => none
    else none

/-- `location()`: (line, column) of the offset: newlines before it, bytes since the last newline.
Returns `none` where the crate would panic. -/
def SemverError.location (e : SemverError) : Option (Nat × Nat) :=
  match splitAtByte e.input e.offset with
  | none => none
  | some (pre, _) =>
    let line := (pre.filter (· == '\n')).length
    let lastLine := (pre.reverse.takeWhile (· != '\n')).reverse
    some (line, utf8Len lastLine)

end Semver
