import SemverModel.Range
import SemverModel.VersionFmt
/-!
# `Display` for `BoundSet` and `Range` (`src/range.rs:183-201, 538-548`)

`none` marks the `unreachable!("does not make sense")` arm.
-/
namespace Semver
open Pred Bound

def BoundSet.render (s : BoundSet) : Option (List Char) :=
  match s.lower, s.upper with
  | lo unb, up unb => some ['*']
  | lo unb, up (inc v) => some ('<' :: '=' :: v.render)
  | lo unb, up (exc v) => some ('<' :: v.render)
  | lo (inc v), up unb => some ('>' :: '=' :: v.render)
  | lo (exc v), up unb => some ('>' :: v.render)
  | lo (inc v), up (inc v2) =>
    if v.beq v2 then some v.render
    else some ('>' :: '=' :: (v.render ++ ' ' :: '<' :: '=' :: v2.render))
  | lo (inc v), up (exc v2) => some ('>' :: '=' :: (v.render ++ ' ' :: '<' :: v2.render))
  | lo (exc v), up (inc v2) => some ('>' :: (v.render ++ ' ' :: '<' :: '=' :: v2.render))
  | lo (exc v), up (exc v2) => some ('>' :: (v.render ++ ' ' :: '<' :: v2.render))
  | _, _ => none

def Range.render : Range → Option (List Char)
  | [] => some []
  | [s] => s.render
  | s :: t :: rest =>
    match s.render, Range.render (t :: rest) with
    | some a, some b => some (a ++ '|' :: '|' :: b)
    | _, _ => none

end Semver
