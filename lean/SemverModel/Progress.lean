import SemverModel.VersionParse
/-!
# Progress lemmas: every parser returns a suffix that is no longer than its input

Needed to define the loops of the range parser by well-founded recursion (no fuel, no artefact
branch), and reused by the "cannot hang" argument of C06.
-/
namespace Semver

theorem span_length (p : Char → Bool) (s : List Char) :
    (span p s).1.length + (span p s).2.length = s.length := by
  induction s with
  | nil => simp [span]
  | cons c cs ih => simp only [span]; split <;> simp <;> omega

theorem span_snd_length_le (p : Char → Bool) (s : List Char) : (span p s).2.length ≤ s.length := by
  have := span_length p s; omega

theorem span_fst_isEmpty_false_lt (p : Char → Bool) (s : List Char)
    (h : (span p s).1.isEmpty = false) : (span p s).2.length < s.length := by
  have := span_length p s
  cases h1 : (span p s).1 with
  | nil => simp [h1] at h
  | cons a as => rw [h1] at this; simp at this; omega

theorem dropBlanks_length_le (s : List Char) : (dropBlanks s).length ≤ s.length :=
  span_snd_length_le _ _

theorem number_length {s v r} (h : number s = .ok v r) : r.length < s.length := by
  unfold number at h
  simp only at h
  split at h
  · cases h
  · split at h
    · cases h
    · split at h
      · cases h
      · cases h
        apply span_fst_isEmpty_false_lt
        rename_i h1 _ _
        simpa using h1

theorem identifier_length {s a r} (h : identifier s = .ok a r) : r.length < s.length := by
  unfold identifier at h
  simp only at h
  split at h
  · cases h
  · cases h
    apply span_fst_isEmpty_false_lt
    rename_i h1
    simpa using h1

theorem identTail_length (fuel : Nat) (s : List Char) : (identTail fuel s).2.length ≤ s.length := by
  induction fuel generalizing s with
  | zero => simp [identTail]
  | succ n ih =>
    unfold identTail
    split
    · rename_i s'
      split
      · rename_i a rest h
        have := identifier_length h
        have := ih rest
        simp; omega
      · simp
    · simp

theorem identList_length {s a r} (h : identList s = .ok a r) : r.length < s.length := by
  unfold identList at h
  split at h
  · cases h
  · rename_i a' rest h'
    cases h
    have := identifier_length h'
    have := identTail_length rest.length rest
    omega

theorem preRelease_length {s a r} (h : preRelease s = .ok a r) : r.length < s.length := by
  unfold preRelease at h
  split at h
  · rename_i a' r' h'
    cases h
    have := identList_length h'
    unfold stripHyphen at this
    split at this <;> simp at * <;> omega
  · cases h

theorem buildMeta_length {s a r} (h : buildMeta s = .ok a r) : r.length < s.length := by
  unfold buildMeta at h
  split at h
  · split at h
    · rename_i a' r' h'
      cases h
      have := identList_length h'
      simp; omega
    · cases h
  · cases h

theorem extras_length (s : List Char) : (extras s).2.length ≤ s.length := by
  unfold extras
  split
  · rename_i p r1 h1
    have := preRelease_length h1
    split
    · rename_i b r2 h2
      have := buildMeta_length h2
      simp; omega
    · simp; omega
  · split
    · rename_i b r h2
      have := buildMeta_length h2
      simp; omega
    · simp

end Semver
