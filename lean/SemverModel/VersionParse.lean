import SemverModel.Basic
import SemverModel.Text
import SemverModel.Error
/-!
# `Version::parse` (`src/lib.rs:339-371, 633-727`)

Each function mirrors the Rust function of the same name.  A parser takes the remaining input and
returns the value with the new remaining input, or the error the crate's `SemverParseError` would
carry (winnow 0.6.26: `alt` reports at its own start with the context/kind of the last branch,
`opt` swallows a backtrack, `separated` resets to before the separator when the element fails,
`try_map` resets to its start; no `cut_err` is used, so every error is a backtrack).
-/
namespace Semver

inductive PRes (α : Type) where
  | ok (a : α) (rest : List Char)
  | err (e : PErr)
deriving Repr

/-- `number()`: `digit1`, `str::parse::<u64>`, bound check; context "number component" -/
def number (s : List Char) : PRes Nat :=
  let r := span isDigit s
  if r.1.isEmpty then .err ⟨s, some "number component", none⟩
  else
    let v := valOf r.1
    if U64 ≤ v then .err ⟨s, some "number component", some .parseIntOverflow⟩
    else if MAX_SAFE_INTEGER < v then .err ⟨s, some "number component", some (.maxInt v)⟩
    else .ok v r.2

/-- the classification closure of `identifier()`: `str::parse::<u64>` succeeds exactly on a
non-empty all-digit text below 2^64 (a sign cannot occur: `+` is not an identifier character and
a leading `-` is rejected for unsigned types) -/
def classify (t : List Char) : Ident :=
  if t.all isDigit && decide (valOf t < U64) then .num (valOf t) else .alpha t

/-- `identifier()`: `take_while(1.., alnum | '-')`; context "identifier" -/
def identifier (s : List Char) : PRes Ident :=
  let r := span isIdChar s
  if r.1.isEmpty then .err ⟨s, some "identifier", none⟩
  else .ok (classify r.1) r.2

/-- `separated(1.., identifier, ".")` after its first element: `fuel` bounds the number of
further elements by the input length; each round consumes the "." and a non-empty identifier. -/
def identTail : Nat → List Char → List Ident × List Char
  | 0, s => ([], s)
  | fuel + 1, s =>
    match s with
    | '.' :: s' =>
      match identifier s' with
      | .ok a rest =>
        let r := identTail fuel rest
        (a :: r.1, r.2)
      | .err _ => ([], s)
    | _ => ([], s)

/-- `separated(1.., identifier, literal("."))` -/
def identList (s : List Char) : PRes (List Ident) :=
  match identifier s with
  | .err e => .err e
  | .ok a rest =>
    let r := identTail rest.length rest
    .ok (a :: r.1) r.2

/-- `opt(literal("-"))` -/
def stripHyphen (s : List Char) : List Char :=
  match s with
  | '-' :: t => t
  | _ => s

/-- `pre_release()`: `preceded(opt("-"), separated(1.., identifier, "."))` -/
def preRelease (s : List Char) : PRes (List Ident) :=
  match identList (stripHyphen s) with
  | .ok a r => .ok a r
  | .err e => .err (e.withCtx "pre_release version")

/-- `build()`: `preceded("+", separated(1.., identifier, "."))` -/
def buildMeta (s : List Char) : PRes (List Ident) :=
  match s with
  | '+' :: t =>
    match identList t with
    | .ok a r => .ok a r
    | .err e => .err (e.withCtx "build version")
  | _ => .err ⟨s, some "build version", none⟩

/-- `extras()`: `opt(alt(((pre_release, build)), pre_release, build))` — never fails -/
def extras (s : List Char) : (List Ident × List Ident) × List Char :=
  match preRelease s with
  | .ok p r1 =>
    match buildMeta r1 with
    | .ok b r2 => ((p, b), r2)
    | .err _ => ((p, []), r1)
  | .err _ =>
    match buildMeta s with
    | .ok b r => (([], b), r)
    | .err _ => (([], []), s)

/-- `literal(".")` -/
def dot (s : List Char) : PRes Unit :=
  match s with
  | '.' :: t => .ok () t
  | _ => .err ⟨s, none, none⟩

/-- `version_core()`; context "version core" -/
def versionCore (s : List Char) : PRes (Nat × Nat × Nat) :=
  match number s with
  | .err e => .err (e.withCtx "version core")
  | .ok a r1 =>
  match dot r1 with
  | .err e => .err (e.withCtx "version core")
  | .ok _ r2 =>
  match number r2 with
  | .err e => .err (e.withCtx "version core")
  | .ok b r3 =>
  match dot r3 with
  | .err e => .err (e.withCtx "version core")
  | .ok _ r4 =>
  match number r4 with
  | .err e => .err (e.withCtx "version core")
  | .ok c r5 => .ok (a, b, c) r5

def dropBlanks (s : List Char) : List Char := (span isBlank s).2

/-- `opt(alt((literal("v"), literal("V"))))` -/
def stripVV (s : List Char) : List Char :=
  match s with
  | 'v' :: t => t
  | 'V' :: t => t
  | _ => s

/-- `version()`: `(opt(alt("v","V")), space0, version_core, extras, space0, eof)`; context "version" -/
def versionP (s : List Char) : PRes Version :=
  let s2 := dropBlanks (stripVV s)
  match versionCore s2 with
  | .err e => .err (e.withCtx "version")
  | .ok (a, b, c) r =>
    let x := extras r
    let r' := dropBlanks x.2
    match r' with
    | [] => .ok ⟨a, b, c, x.1.1, x.1.2⟩ []
    | _ :: _ => .err ⟨r', some "version", none⟩

/-- `Version::parse` -/
def Version.parse (s : List Char) : Except SemverError Version :=
  if MAX_LENGTH < utf8Len s then
    -- span = start of the last character
    let off := match s.getLast? with
      | some c => utf8Len s - c.utf8Size
      | none => 0
    .error ⟨s, off, .maxLength⟩
  else
    match versionP s with
    | .ok v _ => .ok v
    | .err e => .error ⟨s, utf8Len s - utf8Len e.rest, e.finalKind⟩

end Semver
