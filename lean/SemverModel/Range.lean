import SemverModel.Bound
/-!
# `Range` operations (`src/range.rs:357-536`)
-/
namespace Semver

abbrev Range := List BoundSet

/-- `Range::any` (the `unwrap()` is on a constant `Some`) -/
def Range.anyRange : Option Range := (BoundSet.new (.lo .unb) (.up .unb)).map ([·])

/-- `Range::satisfies` -/
def Range.satisfies (r : Range) (v : Version) : Bool := List.any r (·.satisfies v)

/-- bounds membership, ignoring the prerelease gate -/
def Range.within (r : Range) (v : Version) : Bool := List.any r (·.within v)

/-- `Range::allows_all`: some pair of alternatives -/
def Range.allowsAll (a b : Range) : Bool := List.any a (fun x => List.any b (fun y => x.allowsAll y))

/-- `Range::allows_any` -/
def Range.allowsAny (a b : Range) : Bool := List.any a (fun x => List.any b (fun y => x.allowsAny y))

/-- `Range::intersect`: pairwise product, left-major -/
def Range.intersectSets (a b : Range) : List BoundSet :=
  a.flatMap (fun x => b.filterMap (fun y => x.intersect y))

def Range.intersect (a b : Range) : Option Range :=
  let sets := Range.intersectSets a b
  if sets.isEmpty then none else some sets

/-- removing `righty` from one remaining piece, in front of what the later pieces left; `none` = panic -/
def diffStepF (righty : BoundSet) (piece : BoundSet) (acc : Option (List BoundSet)) : Option (List BoundSet) :=
  match acc, piece.difference righty with
  | none, _ => none
  | _, .panic => none
  | some rest, .none => some rest
  | some rest, .some l => some (l ++ rest)

/-- one step of the inner loop of `Range::difference`: remove `righty` from every remaining piece -/
def diffStep (remaining : List BoundSet) (righty : BoundSet) : Option (List BoundSet) :=
  remaining.foldr (diffStepF righty) (some [])

/-- what is left of one alternative after removing all alternatives of `other`; `none` = panic -/
def diffAlt (lefty : BoundSet) (other : Range) : Option (List BoundSet) :=
  other.foldl (fun rem righty => rem.bind (diffStep · righty)) (some [lefty])

def diffPiecesF (b : Range) (lefty : BoundSet) (acc : Option (List BoundSet)) : Option (List BoundSet) :=
  match diffAlt lefty b, acc with
  | some l, some rest => some (l ++ rest)
  | _, _ => none

/-- all remainders, alternative by alternative of `a`; `none` = panic -/
def diffPieces (a b : Range) : Option (List BoundSet) := a.foldr (diffPiecesF b) (some [])

/-- `Range::difference`; outer `none` = panic -/
def Range.difference (a b : Range) : Option (Option Range) :=
  (diffPieces a b).map (fun p => if p.isEmpty then none else some p)

/-- `Range::max_satisfying` as an index into the slice -/
def Range.maxSatisfying (r : Range) (vs : List Version) : Option Version :=
  maxBy cmpVersion (vs.filter r.satisfies)

def Range.minSatisfying (r : Range) (vs : List Version) : Option Version :=
  minBy cmpVersion (vs.filter r.satisfies)

/-- `Range::min_version` -/
def Range.minVersion (r : Range) : Option Version :=
  minBy cmpVersion (r.filterMap BoundSet.minVersion)

end Semver
