import SemverModel.VersionParse
import SemverModel.VersionFmt
import SemverModel.RangeParse
import SemverModel.RangeFmt
/-!
# serde (`src/lib.rs:308-321`, `src/range.rs:342-355`)

`Serialize` = `collect_str(self)` (the JSON string of `Display`), `Deserialize` = `String` then
`parse`.  Printed versions and ranges contain no character that JSON escapes, so the JSON text is
the printed text between double quotes (`serde_json`'s string codec itself is trusted, DESIGN §7).
-/
namespace Semver

def jsonQuote (s : List Char) : List Char := '"' :: s ++ ['"']

def Version.toJson (v : Version) : List Char := jsonQuote v.render

/-- inverse of `jsonQuote` on escape-free text -/
def jsonUnquote (s : List Char) : Option (List Char) :=
  match s with
  | '"' :: t =>
    match t.reverse with
    | '"' :: r => if r.all (fun c => c != '"' && c != '\\') then some r.reverse else none
    | _ => none
  | _ => none

def Version.fromJson (s : List Char) : Option Version :=
  match jsonUnquote s with
  | some t => match Version.parse t with
    | .ok v => some v
    | .error _ => none
  | none => none

def Range.toJson (r : Range) : Option (List Char) := (Range.render r).map jsonQuote

def Range.fromJson (s : List Char) : Option Range :=
  match jsonUnquote s with
  | some t => match Range.parse t with
    | .ok v => some v
    | .error _ => none
  | none => none

end Semver
