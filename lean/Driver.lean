import SemverModel
import SemverSpec
/-!
# Line-protocol driver

Reads one request per line (`op<TAB>args…<TAB>answer-of-the-crate`), evaluates the model on the
same arguments and prints `OK`, or `DIFF<TAB>model-answer`; independent of that it evaluates the
property oracles (spec-level definitions applied to what the crate returned) and appends
`<TAB>ORACLE<TAB>Cxx<TAB>detail` for each failing one.  Text payloads are hex-encoded UTF-8.
-/
open Semver

namespace Codec

def hexDigit (c : Char) : Option Nat :=
  if '0' ≤ c && c ≤ '9' then some (c.toNat - 48)
  else if 'a' ≤ c && c ≤ 'f' then some (c.toNat - 87)
  else none

def hexToBytes : List Char → Option (List UInt8)
  | [] => some []
  | a :: b :: t => do
    let x ← hexDigit a
    let y ← hexDigit b
    let r ← hexToBytes t
    pure (UInt8.ofNat (x * 16 + y) :: r)
  | _ => none

/-- `_` is the empty text -/
def decodeText (f : String) : Option (List Char) :=
  if f == "_" then some [] else do
    let bs ← hexToBytes f.toList
    let s ← String.fromUTF8? (ByteArray.mk bs.toArray)
    pure s.toList

def nibble (n : Nat) : Char := if n < 10 then Char.ofNat (48 + n) else Char.ofNat (87 + n)

def encodeText (s : List Char) : String :=
  if s.isEmpty then "_" else
    let bs := (String.ofList s).toUTF8
    String.ofList (bs.toList.flatMap (fun b => [nibble (b.toNat / 16), nibble (b.toNat % 16)]))

def decodeIdent (f : String) : Option Ident :=
  match f.toList with
  | 'n' :: t => (String.ofList t).toNat?.map Ident.num
  | 'a' :: t => (decodeText (String.ofList t)).map Ident.alpha
  | _ => none

def decodeIdents (f : String) : Option (List Ident) :=
  if f == "" then some [] else (f.splitOn ";").mapM decodeIdent

/-- `major,minor,patch,pre,build` -/
def decodeVersion (f : String) : Option Version :=
  match f.splitOn "," with
  | [a, b, c, p, q] => do
    let a ← a.toNat?
    let b ← b.toNat?
    let c ← c.toNat?
    let p ← decodeIdents p
    let q ← decodeIdents q
    pure ⟨a, b, c, p, q⟩
  | _ => none

def encodeIdent : Ident → String
  | .num n => "n" ++ toString n
  | .alpha s => "a" ++ encodeText s

def encodeIdents (l : List Ident) : String := ";".intercalate (l.map encodeIdent)

def encodeVersion (v : Version) : String :=
  s!"{v.major},{v.minor},{v.patch},{encodeIdents v.pre},{encodeIdents v.build}"

def encodeKind : EKind → String
  | .maxLength => "MaxLength"
  | .incompleteInput => "Incomplete"
  | .parseIntOverflow => "ParseInt"
  | .parseIntEmpty => "ParseInt"
  | .parseIntInvalidDigit => "ParseInt"
  | .maxInt n => s!"MaxInt:{n}"
  | .context c => "Context:" ++ encodeText c.toList
  | .noValidRanges => "NoValidRanges"
  | .other => "Other"

def encodeError (e : SemverError) : String :=
  let loc := match e.location with
    | some (l, c) => s!"{l}:{c}"
    | none => "panic"
  s!"err {encodeKind e.kind} {e.offset} {loc} {encodeText e.input}"

def ordStr : Ordering → String
  | .lt => "lt" | .eq => "eq" | .gt => "gt"

def b01 (b : Bool) : String := if b then "1" else "0"

end Codec

namespace AstCodec
open Codec Semver.Spec.Npm

def encNP : NP → String
  | .any => "A"
  | .maj M => s!"J,{M}"
  | .majMin M m => s!"N,{M},{m}"
  | .full M m p pre build => s!"F,{M},{m},{p},{encodeIdents pre},{encodeIdents build}"

def encOp : Op → String
  | .lt => "lt" | .le => "le" | .gt => "gt" | .ge => "ge" | .eq => "eq"

def encSimple : Simple → String
  | .prim op p => s!"P{encOp op}:{encNP p}"
  | .bare p => s!"B:{encNP p}"
  | .tilde p => s!"T:{encNP p}"
  | .caret p => s!"C:{encNP p}"
  | .garbage t => s!"G:{encodeText t}"

def encAlt : Alt → String
  | .hyphen lo hi => s!"H/{encNP lo}/{encNP hi}"
  | .simples l => "S/" ++ "/".intercalate (l.map encSimple)

def encAst (r : Ast) : String := "|".intercalate (r.map encAlt)

def decNP (f : String) : Option NP :=
  match f.splitOn "," with
  | ["A"] => some .any
  | ["J", m] => m.toNat?.map NP.maj
  | ["N", a, b] => do pure (.majMin (← a.toNat?) (← b.toNat?))
  | ["F", a, b, c, p, q] => do
    pure (.full (← a.toNat?) (← b.toNat?) (← c.toNat?) (← decodeIdents p) (← decodeIdents q))
  | _ => none

def decOp : String → Option Op
  | "lt" => some .lt | "le" => some .le | "gt" => some .gt | "ge" => some .ge | "eq" => some .eq
  | _ => none

def decSimple (f : String) : Option Simple :=
  match f.splitOn ":" with
  | [k, body] =>
    if k == "B" then (decNP body).map Simple.bare
    else if k == "T" then (decNP body).map Simple.tilde
    else if k == "C" then (decNP body).map Simple.caret
    else if k == "G" then (decodeText body).map Simple.garbage
    else if k.startsWith "P" then do
      let op ← decOp (k.drop 1).toString
      let p ← decNP body
      pure (.prim op p)
    else none
  | _ => none

def decAlt (f : String) : Option Alt :=
  match f.splitOn "/" with
  | ["H", a, b] => do pure (.hyphen (← decNP a) (← decNP b))
  | "S" :: rest => (rest.mapM decSimple).map Alt.simples
  | _ => none

def decAst (f : String) : Option Ast := (f.splitOn "|").mapM decAlt

end AstCodec

open Codec

/-- printed form of an optional range result -/
def showRangeOpt : Option Range → String
  | none => "none"
  | some r => match Range.render r with
    | some t => "some " ++ encodeText t
    | none => "panic"

def showVersionOpt : Option Version → String
  | none => "none"
  | some v => encodeVersion v

/-- expression trees for C15: prefix tokens `I`, `D`, `L<hex>`; leaves are parsed with the model's
`Range.parse` (`none` if a leaf does not parse) -/
def parseExpr : Nat → List String → Option (Expr × List String)
  | 0, _ => none
  | _ + 1, [] => none
  | fuel + 1, tok :: rest =>
    if tok == "I" || tok == "D" then do
      let (a, r1) ← parseExpr fuel rest
      let (b, r2) ← parseExpr fuel r1
      pure (if tok == "I" then .isect a b else .diff a b, r2)
    else match tok.toList with
      | 'L' :: h => do
        let t ← decodeText (String.ofList h)
        match Range.parse t with
        | .ok r => pure (.leaf r, rest)
        | .error _ => none
      | _ => none

/-- an operand: a range text, or `@any` for `Range::any()` (which no text denotes) -/
def parseOperand (t : List Char) : Except SemverError Range :=
  if t == "@any".toList then
    match Range.anyRange with
    | some r => .ok r
    | none => .error ⟨t, 0, .noValidRanges⟩
  else Range.parse t

def withRange (f : String) (k : Range → String) : String :=
  match decodeText f with
  | none => "badreq"
  | some t => match parseOperand t with
    | .ok r => k r
    | .error _ => "perr"

def with2Ranges (f g : String) (k : Range → Range → String) : String :=
  withRange f (fun a => withRange g (fun b => k a b))

/-- the model's answer to one request -/
def answer (op : String) (args : List String) : String :=
  match op, args with
  | "vcmp", [a, b] =>
    match decodeVersion a, decodeVersion b with
    | some a, some b =>
      s!"{ordStr (cmpVersion a b)} beq={b01 (a.beq b)} hash={b01 (a.hashKey == b.hashKey)}"
    | _, _ => "badreq"
  | "vfmt", [a] =>
    match decodeVersion a with
    | some a => s!"{encodeText a.render} pre={b01 a.isPre}"
    | none => "badreq"
  | "vcmpt", [a, b] =>
    match decodeText a, decodeText b with
    | some a, some b => match Version.parse a, Version.parse b with
      | .ok x, .ok y => s!"{ordStr (cmpVersion x y)} beq={b01 (x.beq y)}"
      | _, _ => "perr"
    | _, _ => "badreq"
  | "vsort", vs =>
    match vs.mapM decodeVersion with
    | some vs =>
      let showList (l : List Version) : String :=
        if l.isEmpty then "-" else "|".intercalate (l.map encodeVersion)
      s!"{showList (sortVersions vs)} max={showVersionOpt (maxBy cmpVersion vs)} min={showVersionOpt (minBy cmpVersion vs)} unstable=1 set={showList (setOfVersions vs)}"
    | none => "badreq"
  | "vparse", [t] =>
    match decodeText t with
    | some t => match Version.parse t with
      | .ok v => s!"ok {encodeVersion v} {encodeText v.render}"
      | .error e => encodeError e
    | none => "badreq"
  | "vdiff", [a, b] =>
    match decodeVersion a, decodeVersion b with
    | some a, some b => match a.diff b with
      | some d => d.render
      | none => "none"
    | _, _ => "badreq"
  | "vfrom3", [a, b, c] =>
    match a.toNat?, b.toNat?, c.toNat? with
    | some a, some b, some c =>
      let v := Version.mk3 a b c
      let p := match Version.parse (renderCore a b c) with
        | .ok w => encodeVersion w
        | .error _ => "perr"
      s!"{encodeVersion v} {encodeText v.render} parse={p}"
    | _, _, _ => "badreq"
  | "vfrom4", [a, b, c, d] =>
    match a.toNat?, b.toNat?, c.toNat?, d.toNat? with
    | some a, some b, some c, some d =>
      let v := Version.mk4 a b c d
      let p := match Version.parse (renderCore a b c ++ '-' :: renderNat d) with
        | .ok w => encodeVersion w
        | .error _ => "perr"
      s!"{encodeVersion v} {encodeText v.render} parse={p}"
    | _, _, _, _ => "badreq"
  | "vround", [t] =>
    -- parse, print, parse again: same in all five fields? printing stable?
    match decodeText t with
    | some t => match Version.parse t with
      | .ok v => match Version.parse v.render with
        | .ok v' => s!"ok same={b01 (decide (v = v'))} fixed={b01 (decide (v'.render = v.render))}"
        | .error e => s!"reparse-{encodeKind e.kind} printed_len={utf8Len v.render}"
      | .error _ => "perr"
    | none => "badreq"
  | "vfround", [a] =>
    match decodeVersion a with
    | some v =>
      let printed := v.render
      match Version.parse printed with
      | .ok w => s!"ok {encodeText printed} same={b01 (decide (v = w))} fixed={b01 (decide (w.render = printed))}"
      | .error e => s!"reparse-{encodeKind e.kind} printed_len={utf8Len printed} {encodeText printed}"
    | none => "badreq"
  | "serdev", [t] =>
    match decodeText t with
    | some t => match Version.parse t with
      | .ok v => match Version.fromJson v.toJson with
        | some v' => s!"ok {encodeText v.toJson} same={b01 (decide (v = v'))}"
        | none => "deser-fail"
      | .error _ => "perr"
    | none => "badreq"
  | "rparse", [t] =>
    match decodeText t with
    | some t => match Range.parse t with
      | .ok r => match Range.render r with
        | some d => "ok " ++ encodeText d
        | none => "panic"
      | .error e => encodeError e
    | none => "badreq"
  | "rround", [t] =>
    -- parse, print, parse: equal as values (PartialEq)? printing stable?
    withRange t (fun r => match Range.render r with
      | none => "panic"
      | some d => match Range.parse d with
        | .ok r' =>
          let eq := r.length == r'.length && (r.zip r').all (fun (x, y) => x.beq y)
          s!"ok eq={b01 eq} fixed={b01 (Range.render r' == some d)}"
        | .error e => "reparse-" ++ encodeKind e.kind)
  | "serder", [t] =>
    withRange t (fun r => match Range.toJson r with
      | none => "panic"
      | some j => match Range.fromJson j with
        | some r' =>
          let eq := r.length == r'.length && (r.zip r').all (fun (x, y) => x.beq y)
          s!"ok {encodeText j} eq={b01 eq}"
        | none => "deser-fail")
  | "sat", [r, _printed, v] =>
    match decodeVersion v with
    | some v => withRange r (fun r => b01 (r.satisfies v))
    | none => "badreq"
  | "npm", [_ast, t, v] =>
    match decodeVersion v with
    | some v => withRange t (fun r => b01 (r.satisfies v))
    | none => "badreq"
  | "c02", [a, b, v] =>
    match decodeText a, decodeText b, decodeVersion v with
    | some a, some b, some v =>
      let sat (t : List Char) : String := match Range.parse t with
        | .ok r => b01 (r.satisfies v)
        | .error _ => "e"
      let printed (t : List Char) : String := match Range.parse t with
        | .ok r => match Range.render r with
          | some d => encodeText d
          | none => "panic"
        | .error _ => "e"
      let orT := a ++ " || ".toList ++ b
      let roT := b ++ " || ".toList ++ a
      let andT := a ++ ' ' :: b
      let dnaT := b ++ ' ' :: a
      s!"a={sat a} b={sat b} or={sat orT} ro={sat roT} and={sat andT} dna={sat dnaT} pa={printed a} pb={printed b}"
    | _, _, _ => "badreq"
  | "isect", [a, b] => with2Ranges a b (fun a b => showRangeOpt (a.intersect b))
  | "rdiff", [a, b] => with2Ranges a b (fun a b => match a.difference b with
      | some r => showRangeOpt r
      | none => "panic")
  | "any", [a, b] => with2Ranges a b (fun a b =>
      s!"{b01 (a.allowsAny b)} isect={b01 (a.intersect b).isSome} rev={b01 (b.allowsAny a)}")
  | "all", [a, b] => with2Ranges a b (fun a b =>
      match b.difference a with
      | some d => s!"{b01 (a.allowsAll b)} any={b01 (a.allowsAny b)} self={b01 (a.allowsAll a)} diffnone={b01 d.isNone}"
      | none => "panic")
  | "minv", [r, _printed] => withRange r (fun r => showVersionOpt r.minVersion)
  | "maxsat", r :: _printed :: vs =>
    match vs.mapM decodeVersion with
    | some vs => withRange r (fun r => showVersionOpt (r.maxSatisfying vs))
    | none => "badreq"
  | "minsat", r :: _printed :: vs =>
    match vs.mapM decodeVersion with
    | some vs => withRange r (fun r => showVersionOpt (r.minSatisfying vs))
    | none => "badreq"
  | "expr", [e] =>
    let toks := e.splitOn " "
    match parseExpr (toks.length + 1) toks with
    | some (ex, []) => match ex.eval with
      | some r => showRangeOpt r
      | none => "panic"
    | _ => "badreq"
  | "const", [] =>
    -- `Deserialize` = parse of a JSON string; the model's `fromJson` rejects every non-string document
    let bad := ["123", "null", "[\"1.2.3\"]", "{}", "\"not a version\"", "\"\""]
    let allErr := bad.all (fun j => (Version.fromJson j.toList).isNone) && bad.all (fun j => (Range.fromJson j.toList).isNone)
    s!"{MAX_SAFE_INTEGER} {MAX_LENGTH} deser_rejects={b01 allErr}"
  | _, _ => "badreq"

/-! ## Oracles: spec-level checks of the crate's own answers -/

/-! Known findings about C01, each one table entry of npm's desugaring that the crate reads
differently.  `Known.sat k2 k3` is npm's semantics with exactly those entries replaced; an oracle
failure that disappears under a replacement is that known finding, any other failure is a new
violation.
* K2: `<M` (wildcard minor) is read as `<M.0.0` where npm says `<M.0.0-0`, and `^0` as `<1.0.0-0`
  where npm says `>=0.0.0 <1.0.0-0` (both pinned by the crate's own test suite: `intersection::multiple`,
  `tests::caret_zero`); they differ from npm only on prereleases admitted through another tagged
  comparator of the same alternative.
* K3: `<=M` / `<=M.m` whose bumped component is MAX_SAFE_INTEGER: npm's `<(M+1).0.0-0` is not a
  valid comparator (node-semver throws), the crate reads `<=M.MAX.MAX` and accepts. -/
/-- npm's semantics with the crate's known deviations substituted: `SemverSpec/NpmKnown.lean` -/
abbrev Known.sat := Semver.Spec.Npm.Known.sat

namespace Oracle
open Semver.Spec

def toEndpoint : Pred → Option Endpoint
  | .inc v => some ⟨v, true⟩
  | .exc v => some ⟨v, false⟩
  | .unb => none

def toInterval (s : BoundSet) : Option Interval :=
  match s.lower, s.upper with
  | .lo p, .up q => some ⟨toEndpoint p, toEndpoint q⟩
  | _, _ => none

/-- the set denoted by a printed range (read with the model's parser, which C13 proves to invert
`Display`); `none` if the text is not a printed range -/
def vsetOfText (t : List Char) : Option VSet :=
  match parseOperand t with
  | .ok r =>
    let is := r.filterMap toInterval
    if is.length == r.length then some is else none
  | .error _ => none

def vsetOfField (f : String) : Option VSet := (decodeText f).bind vsetOfText

/-- result field `none | some <hex> | panic` -/
def vsetOfResult (impl : String) : Option VSet :=
  if impl == "none" then some []
  else match impl.splitOn " " with
    | ["some", h] => vsetOfField h
    | _ => none

def showV (v : Version) : String := String.ofList v.render

/-- maximal runs of ASCII digits of a text: (byte offset of the run, its decimal value) -/
def digitRuns (s : List Char) : List (Nat × Nat) :=
  let rec go (rest : List Char) (off : Nat) (cur : Option (Nat × Nat)) (acc : List (Nat × Nat)) : List (Nat × Nat) :=
    match rest with
    | [] => (match cur with | some r => r :: acc | none => acc).reverse
    | c :: cs =>
      if c.toNat ≥ 48 && c.toNat ≤ 57 then
        let d := c.toNat - 48
        match cur with
        | some (o, v) => go cs (off + 1) (some (o, v * 10 + d)) acc
        | none => go cs (off + 1) (some (off, d)) acc
      else
        go cs (off + c.utf8Size) none (match cur with | some r => r :: acc | none => acc)
  go s 0 none []

def firstBad (vs : List Version) (ok : Version → Bool) : Option Version := vs.find? (fun v => !ok v)

def setLaw (tags : List String) (what : String) (vs : List Version) (ok : Version → Bool) :
    List (String × String) :=
  match firstBad vs ok with
  | some v => tags.map (fun t => (t, s!"{what} fails at version {showV v}"))
  | none => []

def flagOf (impl key : String) : Option String :=
  (impl.splitOn " ").findSome? (fun f => if f.startsWith (key ++ "=") then some (f.drop (key.length + 1)).toString else none)

/-- expression trees over printed leaves, evaluated as sets -/
inductive SExpr where
  | leaf (s : VSet)
  | isect (a b : SExpr)
  | diff (a b : SExpr)

def parseSExpr : Nat → List String → Option (SExpr × List String)
  | 0, _ => none
  | _ + 1, [] => none
  | fuel + 1, tok :: rest =>
    if tok == "I" || tok == "D" then do
      let (a, r1) ← parseSExpr fuel rest
      let (b, r2) ← parseSExpr fuel r1
      pure (if tok == "I" then .isect a b else .diff a b, r2)
    else match tok.toList with
      | 'L' :: h => do
        let s ← vsetOfField (String.ofList h)
        pure (.leaf s, rest)
      | _ => none

def SExpr.denote : SExpr → Version → Bool
  | .leaf s, v => s.within v
  | .isect a b, v => a.denote v && b.denote v
  | .diff a b, v => a.denote v && !b.denote v

def SExpr.leaves : SExpr → List VSet
  | .leaf s => [s]
  | .isect a b => a.leaves ++ b.leaves
  | .diff a b => a.leaves ++ b.leaves

def check (op : String) (args : List String) (impl : String) : List (String × String) :=
  match op, args with
  | "vcmp", [a, b] =>
    match decodeVersion a, decodeVersion b with
    | some a, some b =>
      let spec := prec a b
      let eqSpec := spec == .eq
      let want := s!"{ordStr spec} beq={b01 eqSpec}"
      let parts := impl.splitOn " "
      let okOrd := impl.startsWith want
      let okHash := !eqSpec || parts.getLast? == some "hash=1"
      (if okOrd then [] else [("C04", s!"cmp/eq: crate `{impl}` spec `{want}`")]) ++
      (if okHash then [] else [("C04", "equal versions hash differently")])
    | _, _ => []
  | "vcmpt", [a, b] =>
    -- precedence of the versions the two texts *denote* (split-based reading of the grammar)
    match decodeText a, decodeText b with
    | some a, some b => match denotedVersion a, denotedVersion b with
      | some x, some y =>
        let want := s!"{ordStr (prec x y)} beq={b01 (prec x y == .eq)}"
        if impl == want then [] else [("C04", s!"precedence of parsed texts: crate `{impl}` spec `{want}`"), ("C05", s!"fields of a parsed text order differently from the denoted version: crate `{impl}` spec `{want}`")]
      | _, _ => if impl == "perr" then [] else [("C05", "accepted a text outside the version language")]
    | _, _ => []
  | "vsort", vs =>
    -- the crate's sorted list must ascend by the spec's precedence and be a rearrangement of the input;
    -- max/min must be extreme; the set must hold one element per precedence class
    match vs.mapM decodeVersion with
    | some vs =>
      let field (k : String) : Option String :=
        (impl.splitOn " ").findSome? (fun f => if f.startsWith (k ++ "=") then some ((f.drop (k.length + 1)).toString) else none)
      let listOf (f : String) : Option (List Version) :=
        if f == "-" then some [] else (f.splitOn "|").mapM decodeVersion
      let ascending (l : List Version) : Bool :=
        (l.zip l.tail).all (fun p => prec p.1 p.2 != .gt)
      let strictly (l : List Version) : Bool :=
        (l.zip l.tail).all (fun p => prec p.1 p.2 == .lt)
      let count (l : List Version) (x : Version) : Nat := (l.filter (fun y => encodeVersion y == encodeVersion x)).length
      let sorted := listOf ((impl.splitOn " ").headD "-")
      let setL := (field "set").bind listOf
      let r1 := match sorted with
        | some l =>
          (if ascending l then [] else [("C04", "sorted list does not ascend by SemVer precedence")]) ++
          (if l.length == vs.length && vs.all (fun x => count l x == count vs x) then []
           else [("C04", "sorted list is not a rearrangement of the input")])
        | none => [("C04", s!"sort: unreadable answer `{impl}`")]
      let r2 := match field "max" with
        | some m => if vs.isEmpty then (if m == "none" then [] else [("C04", "max of an empty list")])
          else match decodeVersion m with
            | some mv => if vs.all (fun y => prec y mv != .gt) && vs.any (fun y => encodeVersion y == m) then []
                         else [("C04", s!"max is not a greatest element: `{m}`")]
            | none => [("C04", s!"max: `{m}`")]
        | none => [("C04", "no max field")]
      let r3 := match field "min" with
        | some m => if vs.isEmpty then (if m == "none" then [] else [("C04", "min of an empty list")])
          else match decodeVersion m with
            | some mv => if vs.all (fun y => prec mv y != .gt) && vs.any (fun y => encodeVersion y == m) then []
                         else [("C04", s!"min is not a least element: `{m}`")]
            | none => [("C04", s!"min: `{m}`")]
        | none => [("C04", "no min field")]
      let r4 := if field "unstable" == some "1" then [] else [("C04", "sort_unstable disagrees with sort up to build metadata")]
      let r5 := match setL with
        | some l =>
          if strictly l && vs.all (fun x => l.any (fun y => prec x y == .eq)) && l.all (fun y => vs.any (fun x => encodeVersion x == encodeVersion y))
          then [] else [("C04", "BTreeSet iteration is not one ascending representative per precedence class")]
        | none => [("C04", "set: unreadable")]
      r1 ++ r2 ++ r3 ++ r4 ++ r5
    | none => []
  | "vdiff", [a, b] =>
    match decodeVersion a, decodeVersion b with
    | some a, some b =>
      let want := match npmDiff a b with
        | some d => d.render
        | none => "none"
      if impl == want then [] else [("C16", s!"diff: crate `{impl}` node-semver `{want}`")]
    | _, _ => []
  | "isect", [a, b] =>
    if impl == "panic" then [("C06", "intersect panicked"), ("C07", "intersect panicked"), ("C15", "intersect panicked")] else
    match vsetOfField a, vsetOfField b, vsetOfResult impl with
    | some A, some B, some R =>
      let g := grid [A, B, R]
      setLaw ["C07", "C15"] "within(A∩B) = within A ∧ within B" g (fun v => R.within v == (A.within v && B.within v)) ++
      setLaw ["C07"] "release: sat(A∩B) = sat A ∧ sat B" g (fun v => !v.pre.isEmpty || R.sat v == (A.sat v && B.sat v)) ++
      setLaw ["C07"] "prerelease satisfying both satisfies the result" g (fun v => !(A.sat v && B.sat v) || R.sat v) ++
      setLaw ["C07"] "prerelease satisfying the result satisfies an operand" g (fun v => !R.sat v || (A.sat v || B.sat v))
    | some _, some _, none => [("C07", "result of intersect does not re-parse"), ("C13", "result of intersect does not re-parse"), ("C15", "result of intersect does not re-parse")]
    | _, _, _ => []
  | "rdiff", [a, b] =>
    if impl == "panic" then [("C06", "difference panicked"), ("C08", "difference panicked"), ("C15", "difference panicked")] else
    match vsetOfField a, vsetOfField b, vsetOfResult impl with
    | some A, some B, some R =>
      let g := grid [A, B, R]
      setLaw ["C08", "C15"] "within(A−B) = within A ∧ ¬within B" g (fun v => R.within v == (A.within v && !B.within v)) ++
      setLaw ["C08"] "release: sat(A−B) = sat A ∧ ¬sat B" g (fun v => !v.pre.isEmpty || R.sat v == (A.sat v && !B.sat v))
    | some _, some _, none => [("C08", "result of difference does not re-parse"), ("C13", "result of difference does not re-parse"), ("C15", "result of difference does not re-parse")]
    | _, _, _ => []
  | "any", [a, b] =>
    if impl == "panic" then [("C06", "allows_any panicked"), ("C09", "allows_any panicked")] else
    match vsetOfField a, vsetOfField b with
    | some A, some B =>
      let x := impl.take 1
      let g := grid [A, B]
      (if flagOf impl "isect" == some x.toString then [] else [("C09", s!"allows_any ≠ intersect.is_some: `{impl}`")]) ++
      (if flagOf impl "rev" == some x.toString then [] else [("C09", s!"allows_any not symmetric: `{impl}`")]) ++
      (if x.toString == "0" then setLaw ["C09"] "allows_any = false but a version lies within both" g (fun v => !(A.within v && B.within v)) else []) ++
      (if x.toString == "0" then [] else
        -- overlap claimed: nothing to refute pointwise (gaps in the order can hide the witness)
        [])
    | _, _ => []
  | "all", [a, b] =>
    if impl == "panic" then [("C06", "allows_all panicked"), ("C10", "allows_all panicked")] else
    match vsetOfField a, vsetOfField b with
    | some A, some B =>
      let x := (impl.take 1).toString
      let g := grid [A, B]
      (if flagOf impl "self" == some "1" then [] else [("C10", "a range does not allow all of itself")]) ++
      (if B.length == 1 && x == "1" then
        setLaw ["C10"] "allows_all = true but a version of B lies outside A" g (fun v => !B.within v || A.within v) ++
        (if flagOf impl "any" == some "1" then [] else [("C10", "allows_all without allows_any")])
       else []) ++
      (if A.length == 1 && B.length == 1 && flagOf impl "diffnone" != some x then
        [("C10", s!"allows_all ≠ (B.difference(A) is None): `{impl}`")] else [])
    | _, _ => []
  | "sat", [_, printed, v] =>
    if impl == "panic" then [("C06", "satisfies panicked")] else
    match vsetOfField printed, decodeVersion v with
    | some R, some v =>
      let want := b01 (R.sat v)
      if impl == want then [] else [("C03", s!"satisfies: crate {impl}, bounds+tag rule {want} at {showV v}")]
    | _, _ => []
  | "minv", [_, printed] =>
    if impl == "panic" then [("C06", "min_version panicked"), ("C11", "min_version panicked")] else
    match vsetOfField printed with
    | some R =>
      let g := grid [R]
      if impl == "none" then setLaw ["C11"] "min_version = None but a version satisfies" g (fun v => !R.sat v)
      else match decodeVersion impl with
        | some m =>
          (if R.sat m then [] else [("C11", s!"min_version {showV m} does not satisfy the range")]) ++
          setLaw ["C11"] s!"a version below min_version {showV m} satisfies" (g ++ around m) (fun v => !(prec v m == .lt && R.sat v))
        | none => []
    | none => []
  | "maxsat", _ :: printed :: vs =>
    match vsetOfField printed, vs.mapM decodeVersion with
    | some R, some vs =>
      let sats := vs.filter R.sat
      if impl == "none" then (if sats.isEmpty then [] else [("C14", "max_satisfying = None but an element satisfies")])
      else match decodeVersion impl with
        | some m =>
          (if vs.any (fun x => decide (x = m)) then [] else [("C14", "max_satisfying returned a non-element")]) ++
          (if R.sat m then [] else [("C14", s!"max_satisfying returned {showV m}, which does not satisfy")]) ++
          setLaw ["C14"] s!"an element above max_satisfying {showV m} satisfies" sats (fun x => prec x m != .gt)
        | none => [("C14", s!"max_satisfying: `{impl}`")]
    | _, _ => []
  | "minsat", _ :: printed :: vs =>
    match vsetOfField printed, vs.mapM decodeVersion with
    | some R, some vs =>
      let sats := vs.filter R.sat
      if impl == "none" then (if sats.isEmpty then [] else [("C14", "min_satisfying = None but an element satisfies")])
      else match decodeVersion impl with
        | some m =>
          (if vs.any (fun x => decide (x = m)) then [] else [("C14", "min_satisfying returned a non-element")]) ++
          (if R.sat m then [] else [("C14", s!"min_satisfying returned {showV m}, which does not satisfy")]) ++
          setLaw ["C14"] s!"an element below min_satisfying {showV m} satisfies" sats (fun x => prec x m != .lt)
        | none => [("C14", s!"min_satisfying: `{impl}`")]
    | _, _ => []
  | "expr", [e] =>
    if impl == "panic" then [("C06", "a composition of intersect/difference panicked"), ("C15", "a composition of intersect/difference panicked")] else
    let toks := e.splitOn " "
    match parseSExpr (toks.length + 1) toks, vsetOfResult impl with
    | some (ex, []), some R =>
      let g := grid (R :: ex.leaves)
      setLaw ["C15"] "result of the composition ≠ its set meaning" g (fun v => R.within v == ex.denote v)
    | some _, none => [("C15", "result of a composition does not re-parse")]
    | _, _ => []
  | "npm", [ast, _, v] =>
    if impl == "panic" then [("C06", "satisfies panicked")] else
    match AstCodec.decAst ast, decodeVersion v with
    | some r, some v =>
      -- the property quantifies over versions with components in [0, MAX_SAFE_INTEGER]
      if v.major > Npm.MAX || v.minor > Npm.MAX || v.patch > Npm.MAX then [] else
      let want := Npm.Ast.sat r v
      if impl == "perr" then
        (if want && Known.sat true true r v then [("C01", s!"parse failed but npm admits {showV v}")] else [])
      else if impl == b01 want then []
      else
        if impl == b01 (Known.sat true false r v) then [("C01", s!"K2-pinned-by-tests crate {impl} npm {b01 want} at {showV v}")]
        else if impl == b01 (Known.sat false true r v) then [("C01", s!"K3-le-at-max crate {impl} npm {b01 want} at {showV v}")]
        else if impl == b01 (Known.sat true true r v) then [("C01", s!"K2+K3 crate {impl} npm {b01 want} at {showV v}")]
        else [("C01", s!"satisfies: crate {impl}, npm desugaring {b01 want} at {showV v}")]
    | _, _ => []
  | "c02", [a, b, v] =>
    match decodeText a, decodeText b, decodeVersion v with
    | some ta, some tb, some v =>
      let get (k : String) : String := (flagOf impl k).getD "?"
      let t (x : String) : Bool := x == "1"
      let sa := get "a"; let sb := get "b"
      let anyPanic := (impl.splitOn " ").any (fun f => f.endsWith "=panic")
      if anyPanic then [("C06", "Range::parse / satisfies panicked")] else
      -- OR: `a || b` is satisfied exactly when a or b is; it fails to parse only if both do
      let wantOr := if sa == "e" && sb == "e" then "e" else b01 (t sa || t sb)
      let orFail := if get "or" == wantOr && get "ro" == wantOr then [] else
        [("C02", s!"`a || b`: crate or={get "or"} ro={get "ro"}, expected {wantOr} (a={sa} b={sb}) at {showV v}")]
      -- AND: only for comparator lists (no hyphen form, closed tokens): generated without blanks
      -- inside comparators, so a text containing " - " or `||` is skipped
      -- a token is *closed* if no production can run off its end into the next token: it is not an
      -- operator (or `~`, `~>`, `^`, nothing) optionally followed by `v` with nothing after it, and it
      -- is not a lone `-` (which would form a hyphen range with its neighbours)
      let closedTok (tok : String) : Bool :=
        let afterOp := ([">=", "<=", "~>", ">", "<", "=", "~", "^"].findSome? (fun op =>
          if tok.startsWith op then some ((tok.drop op.length).toString) else none)).getD tok
        let afterV := if afterOp.startsWith "v" then (afterOp.drop 1).toString else afterOp
        !afterV.isEmpty && tok != "-"
      let plain (x : List Char) : Bool :=
        let str := String.ofList x
        !(x.any (· == '|')) && (str.splitOn " - ").length == 1 && (str.splitOn "\t").length == 1 &&
          x.head? != some ' ' && x.getLast? != some ' ' && (str.splitOn "  ").length == 1 &&
          (str.splitOn " ").all closedTok
      let andFail :=
        if !(plain ta && plain tb) then [] else
        let va := vsetOfField (get "pa")
        let vb := vsetOfField (get "pb")
        -- a side that fails to parse either has no valid comparator (it constrains nothing) or an
        -- empty conjunction (then `a b` admits nothing): both readings are accepted
        let norm (x : String) : String := if x == "e" then "0" else x
        let okDna := norm (get "dna") == norm (get "and")
        let dnaFail := if okDna then [] else [("C02", s!"`a b` vs `b a`: and={get "and"} dna={get "dna"} at {showV v}")]
        if sa == "e" || sb == "e" then
          let other := if sa == "e" then sb else sa
          let okAnd := norm (get "and") == "0" || norm (get "and") == norm other
          (if okAnd then [] else [("C02", s!"`a b`: crate and={get "and"} with a={sa} b={sb} at {showV v}")]) ++ dnaFail
        else match va, vb with
          | some A, some B =>
            let w := if v.pre.isEmpty then b01 (t sa && t sb) else b01 (A.within v && B.within v && (t sa || t sb))
            (if norm (get "and") == w then [] else
              [("C02", s!"`a b`: crate and={get "and"}, expected {w} (a={sa} b={sb}) at {showV v}")]) ++ dnaFail
          | _, _ => dnaFail
      orFail ++ andFail
    | _, _, _ => []
  | "vround", [_] =>
    if impl == "perr" || impl == "ok same=1 fixed=1" then [] else [("C12", s!"print/parse round trip: {impl}")]
  | "vfround", [a] =>
    -- a version built from canonical identifiers whose printed form fits MAX_LENGTH must round-trip
    match decodeVersion a with
    | some v =>
      if flagOf impl "same" == some "1" && flagOf impl "fixed" == some "1" then []
      else if impl.startsWith "reparse-MaxLength" && utf8Length v.render > 256 then []
      else [("C12", s!"print/parse round trip of a constructed version: {impl}")]
    | none => []
  | "serdev", [_] =>
    if impl == "perr" || flagOf impl "same" == some "1" then [] else [("C12", s!"serde round trip: {impl}")]
  | "rround", [_] =>
    if impl == "perr" || impl == "ok eq=1 fixed=1" then [] else [("C13", s!"print/parse round trip: {impl}")]
  | "serder", [_] =>
    if impl == "perr" || flagOf impl "eq" == some "1" then [] else [("C13", s!"serde round trip: {impl}")]
  | "vfrom3", [a, b, c] =>
    match a.toNat?, b.toNat?, c.toNat? with
    | some a, some b, some c =>
      let v : Version := ⟨a, b, c, [], []⟩
      let txt := s!"{a}.{b}.{c}"
      let want := s!"{encodeVersion v} {encodeText txt.toList} parse={encodeVersion v}"
      if impl == want then [] else [("C18", s!"from tuple: crate `{impl}` expected `{want}`")]
    | _, _, _ => []
  | "vfrom4", [a, b, c, d] =>
    match a.toNat?, b.toNat?, c.toNat?, d.toNat? with
    | some a, some b, some c, some d =>
      let v : Version := ⟨a, b, c, [.num d], []⟩
      let txt := s!"{a}.{b}.{c}-{d}"
      let want := s!"{encodeVersion v} {encodeText txt.toList} parse={encodeVersion v}"
      if impl == want then [] else [("C18", s!"from tuple: crate `{impl}` expected `{want}`")]
    | _, _, _, _ => []
  | "vparse", [t] =>
    if impl == "panic" then [("C06", "Version::parse panicked")] else
    match decodeText t with
    | some s =>
      let want := denotedVersion s
      let f := impl.splitOn " "
      match f with
      | "ok" :: ver :: _ =>
        match want with
        | some w => if ver == encodeVersion w then [] else [("C05", s!"parsed fields `{ver}` differ from the denoted `{encodeVersion w}`")]
        | none => [("C05", "accepted a string outside the version language")]
      | ["err", kind, off, loc, inp] =>
        (match want with
          | some _ => [("C05", s!"rejected a well-formed version string ({kind})")]
          | none => []) ++
        (if inp == encodeText s then [] else [("C17", "error input() is not the string that was passed in")]) ++
        (match off.toNat? with
          | some o =>
            (if isBoundary s o then [] else [("C17", s!"offset {o} is not a character boundary of the input")]) ++
            (match lineCol s o with
              | some (l, c) => if loc == s!"{l}:{c}" then [] else [("C17", s!"location {loc}, expected {l}:{c}")]
              | none => if loc == "panic" then [("C06", "location() panicked")] else [])
          | none => [("C17", "offset not a number")]) ++
        (if utf8Length s > 256 && kind != "MaxLength" then [("C17", s!"over-long input reported as {kind}")] else []) ++
        -- the numeric kinds are reported only for a component that really is out of range, at its position
        (let runs := digitRuns s
         if kind.startsWith "ParseInt?" then
           [("C17", s!"{kind} at {off}: ParseIntError is reserved for a component overflowing u64")]
         else if kind == "ParseInt" then
           (if runs.any (fun r => r.2 ≥ 18446744073709551616 && some r.1 == off.toNat?) then []
            else [("C17", s!"ParseIntError at {off} although no digit run starting there overflows u64")])
         else if kind.startsWith "MaxInt:" then
           (match ((kind.drop 7).toString).toNat? with
            | some n => if n > 900719925474099 && runs.any (fun r => r.2 == n && some r.1 == off.toNat?) then []
                        else [("C17", s!"MaxIntError({n}) at {off} although no component of that value starts there")]
            | none => [("C17", s!"MaxIntError without a value: {kind}")])
         else [])
      | _ => [("C05", s!"unexpected answer `{impl}`")]
    | none => []
  | "rparse", [t] =>
    if impl == "panic" then [("C06", "Range::parse panicked")] else
    match decodeText t with
    | some s =>
      match impl.splitOn " " with
      | ["err", kind, off, loc, inp] =>
        (if inp == encodeText s then [] else [("C17", "error input() is not the string that was passed in")]) ++
        (if kind == "NoValidRanges" then [] else [("C17", s!"range error kind {kind}")]) ++
        (match off.toNat? with
          | some o =>
            (if isBoundary s o then [] else [("C17", s!"offset {o} is not a character boundary of the input")]) ++
            (match lineCol s o with
              | some (l, c) => if loc == s!"{l}:{c}" then [] else [("C17", s!"location {loc}, expected {l}:{c}")]
              | none => if loc == "panic" then [("C06", "location() panicked")] else [])
          | none => [("C17", "offset not a number")])
      | _ => []
    | none => []
  | _, _ => []

end Oracle

/-- does `needle` occur in `hay`? -/
def containsSub (hay needle : String) : Bool := (hay.splitOn needle).length > 1

def oracles (op : String) (args : List String) (impl : String) : List (String × String) :=
  let o := Oracle.check op args impl
  -- any answer recording a panic of the crate is, by itself, a failing input of C06
  if containsSub impl "panic" && !(o.any (fun p => p.1 == "C06")) then
    ("C06", s!"the crate panicked while answering `{op}`: {impl}") :: o
  else o

partial def loop (h : IO.FS.Stream) (out : IO.FS.Stream) : IO Unit := do
  let line ← h.getLine
  if line.isEmpty then return ()
  let line := String.ofList (line.toList.reverse.dropWhile (fun c => c == '\n' || c == '\r')).reverse
  let fields := line.splitOn "\t"
  match fields with
  | op :: rest =>
    if rest.isEmpty then
      out.putStrLn "BAD"
    else
      let impl := rest.getLast!
      let args := rest.dropLast
      let m := answer op args
      let o := oracles op args impl
      let base := if m == impl then "OK" else "DIFF\t" ++ m
      let ostr := String.join (o.map (fun (p, d) => s!"\tORACLE\t{p}\t{d}"))
      out.putStrLn (base ++ ostr)
  | [] => out.putStrLn "BAD"
  loop h out

/-- `driver gen-npm <seed> <count>`: request lines `npm<TAB>tree<TAB>text<TAB>version<TAB>?` whose text
is rendered from the tree by `Spec.Npm.genAst`; the harness fills in the crate's answers -/
def genNpm (seed count : Nat) : IO Unit := do
  let out ← IO.getStdout
  let mut g : Semver.Spec.Npm.Gen := ⟨seed * 2654435761 + 12345⟩
  for i in [0:count] do
    let (r, g1) := Semver.Spec.Npm.randAst g (i % 3 == 0)
    let (t, g2) := Semver.Spec.Npm.genAst g1 r
    g := g2
    let grid := Semver.Spec.Npm.Ast.grid r
    -- a bounded, seed-dependent sample of the grid
    let n := grid.length
    let mut k := 0
    let mut g3 := g
    let enc := AstCodec.encAst r
    let txt := Codec.encodeText t
    while k < 10 && n > 0 do
      let (j, g4) := g3.below n
      g3 := g4
      out.putStrLn s!"npm\t{enc}\t{txt}\t{Codec.encodeVersion grid[j]!}\t?"
      k := k + 1
    g := g3

/-- the small simples: every operator/shape over partials built from 0 and 1 with three tags -/
def smallSimples : List Semver.Spec.Npm.Simple :=
  let tags : List (List Ident) := [[], [.alpha "alpha".toList], [.num 0]]
  let nps : List Semver.Spec.Npm.NP :=
    [.any, .maj 0, .maj 1, .majMin 0 0, .majMin 0 1, .majMin 1 0, .full 0 0 1 [] [], .full 0 1 0 [] []] ++
    tags.map (fun t => .full 0 0 0 t []) ++ tags.map (fun t => .full 1 0 0 t [])
  nps.flatMap (fun p =>
    [.bare p, .tilde p, .caret p] ++ [Semver.Spec.Npm.Op.lt, .le, .gt, .ge, .eq].map (fun o => .prim o p))

/-- `driver gen-npm-pairs <seed> <count>`: alternatives of two small simples (semantic coincidences at
0.0.0 and 1.0.0: `^0.0 >=0.0.0-alpha`, `* <0.0.0-alpha`, `<1 >=1.0.0-0`, …), each evaluated on its
whole grid; `count = 0` enumerates every ordered pair -/
def genNpmPairs (seed count : Nat) : IO Unit := do
  let out ← IO.getStdout
  let ss := smallSimples
  let n := ss.length
  let mut g : Semver.Spec.Npm.Gen := ⟨seed * 2654435761 + 777⟩
  let total := if count == 0 then n * n else count
  for i in [0:total] do
    let (i1, i2, g') := if count == 0 then (i / n, i % n, g) else
      let (a, g1) := g.below n
      let (b, g2) := g1.below n
      (a, b, g2)
    match ss[i1]?, ss[i2]? with
    | some s1, some s2 =>
      let r : Semver.Spec.Npm.Ast := [.simples [s1, s2]]
      let (t, g2) := Semver.Spec.Npm.genAst g' r
      g := g2
      let enc := AstCodec.encAst r
      let txt := Codec.encodeText t
      for v in (Semver.Spec.Npm.Ast.grid r).eraseDups do
        out.putStrLn s!"npm\t{enc}\t{txt}\t{Codec.encodeVersion v}\t?"
    | _, _ => g := g'

def main (args : List String) : IO Unit := do
  match args with
  | ["gen-npm", seed, count] =>
    match seed.toNat?, count.toNat? with
    | some s, some c => genNpm s c
    | _, _ => IO.eprintln "usage: driver gen-npm <seed> <count>"
  | ["gen-npm-pairs", seed, count] =>
    match seed.toNat?, count.toNat? with
    | some s, some c => genNpmPairs s c
    | _, _ => IO.eprintln "usage: driver gen-npm-pairs <seed> <count>"
  | _ =>
    let stdin ← IO.getStdin
    let stdout ← IO.getStdout
    loop stdin stdout
