import SemverModel
import SemverSpec
/-!
# Line-protocol driver

Reads one request per line (`op<TAB>args…<TAB>answer-of-the-crate`), evaluates the model on the
same arguments and prints `OK`, or `DIFF<TAB>model-answer`; independent of that it evaluates the
property oracles (spec-level definitions applied to what the crate returned) and appends
`<TAB>ORACLE<TAB>Cxx<TAB>detail` for each failing one.  Text payloads are hex-encoded UTF-8.
-/
open Semver

namespace Codec

def hexDigit (c : Char) : Option Nat :=
  if '0' ≤ c && c ≤ '9' then some (c.toNat - 48)
  else if 'a' ≤ c && c ≤ 'f' then some (c.toNat - 87)
  else none

def hexToBytes : List Char → Option (List UInt8)
  | [] => some []
  | a :: b :: t => do
    let x ← hexDigit a
    let y ← hexDigit b
    let r ← hexToBytes t
    pure (UInt8.ofNat (x * 16 + y) :: r)
  | _ => none

/-- `_` is the empty text -/
def decodeText (f : String) : Option (List Char) :=
  if f == "_" then some [] else do
    let bs ← hexToBytes f.toList
    let s ← String.fromUTF8? (ByteArray.mk bs.toArray)
    pure s.toList

def nibble (n : Nat) : Char := if n < 10 then Char.ofNat (48 + n) else Char.ofNat (87 + n)

def encodeText (s : List Char) : String :=
  if s.isEmpty then "_" else
    let bs := (String.ofList s).toUTF8
    String.ofList (bs.toList.flatMap (fun b => [nibble (b.toNat / 16), nibble (b.toNat % 16)]))

def decodeIdent (f : String) : Option Ident :=
  match f.toList with
  | 'n' :: t => (String.ofList t).toNat?.map Ident.num
  | 'a' :: t => (decodeText (String.ofList t)).map Ident.alpha
  | _ => none

def decodeIdents (f : String) : Option (List Ident) :=
  if f == "" then some [] else (f.splitOn ";").mapM decodeIdent

/-- `major,minor,patch,pre,build` -/
def decodeVersion (f : String) : Option Version :=
  match f.splitOn "," with
  | [a, b, c, p, q] => do
    let a ← a.toNat?
    let b ← b.toNat?
    let c ← c.toNat?
    let p ← decodeIdents p
    let q ← decodeIdents q
    pure ⟨a, b, c, p, q⟩
  | _ => none

def encodeIdent : Ident → String
  | .num n => "n" ++ toString n
  | .alpha s => "a" ++ encodeText s

def encodeIdents (l : List Ident) : String := ";".intercalate (l.map encodeIdent)

def encodeVersion (v : Version) : String :=
  s!"{v.major},{v.minor},{v.patch},{encodeIdents v.pre},{encodeIdents v.build}"

def encodeKind : EKind → String
  | .maxLength => "MaxLength"
  | .incompleteInput => "Incomplete"
  | .parseIntOverflow => "ParseInt"
  | .maxInt n => s!"MaxInt:{n}"
  | .context c => "Context:" ++ encodeText c.toList
  | .noValidRanges => "NoValidRanges"
  | .other => "Other"

def encodeError (e : SemverError) : String :=
  let loc := match e.location with
    | some (l, c) => s!"{l}:{c}"
    | none => "panic"
  s!"err {encodeKind e.kind} {e.offset} {loc} {encodeText e.input}"

def ordStr : Ordering → String
  | .lt => "lt" | .eq => "eq" | .gt => "gt"

def b01 (b : Bool) : String := if b then "1" else "0"

end Codec

open Codec

/-- printed form of an optional range result -/
def showRangeOpt : Option Range → String
  | none => "none"
  | some r => match Range.render r with
    | some t => "some " ++ encodeText t
    | none => "panic"

def showVersionOpt : Option Version → String
  | none => "none"
  | some v => encodeVersion v

/-- expression trees for C15: prefix tokens `I`, `D`, `L<hex>` -/
inductive Expr where
  | leaf (t : List Char)
  | isect (a b : Expr)
  | diff (a b : Expr)

def parseExpr : Nat → List String → Option (Expr × List String)
  | 0, _ => none
  | _ + 1, [] => none
  | fuel + 1, tok :: rest =>
    if tok == "I" || tok == "D" then do
      let (a, r1) ← parseExpr fuel rest
      let (b, r2) ← parseExpr fuel r1
      pure (if tok == "I" then .isect a b else .diff a b, r2)
    else match tok.toList with
      | 'L' :: h => do
        let t ← decodeText (String.ofList h)
        pure (.leaf t, rest)
      | _ => none

/-- evaluation: `none` = panic / unparsable leaf, `some none` = empty -/
def Expr.eval : Expr → Option (Option Range)
  | .leaf t => match Range.parse t with
    | .ok r => some (some r)
    | .error _ => none
  | .isect a b => do
    let x ← a.eval
    let y ← b.eval
    match x, y with
    | some x, some y => pure (Range.intersect x y)
    | _, _ => pure none
  | .diff a b => do
    let x ← a.eval
    let y ← b.eval
    match x, y with
    | some x, some y => Range.difference x y
    | some x, none => pure (some x)
    | none, _ => pure none

def withRange (f : String) (k : Range → String) : String :=
  match decodeText f with
  | none => "badreq"
  | some t => match Range.parse t with
    | .ok r => k r
    | .error _ => "perr"

def with2Ranges (f g : String) (k : Range → Range → String) : String :=
  withRange f (fun a => withRange g (fun b => k a b))

/-- the model's answer to one request -/
def answer (op : String) (args : List String) : String :=
  match op, args with
  | "vcmp", [a, b] =>
    match decodeVersion a, decodeVersion b with
    | some a, some b =>
      s!"{ordStr (cmpVersion a b)} beq={b01 (a.beq b)} hash={b01 (a.hashKey == b.hashKey)}"
    | _, _ => "badreq"
  | "vfmt", [a] =>
    match decodeVersion a with
    | some a => encodeText a.render
    | none => "badreq"
  | "vparse", [t] =>
    match decodeText t with
    | some t => match Version.parse t with
      | .ok v => s!"ok {encodeVersion v} {encodeText v.render}"
      | .error e => encodeError e
    | none => "badreq"
  | "vdiff", [a, b] =>
    match decodeVersion a, decodeVersion b with
    | some a, some b => match a.diff b with
      | some d => d.render
      | none => "none"
    | _, _ => "badreq"
  | "vfrom3", [a, b, c] =>
    match a.toNat?, b.toNat?, c.toNat? with
    | some a, some b, some c =>
      let v := Version.mk3 a b c
      s!"{encodeVersion v} {encodeText v.render}"
    | _, _, _ => "badreq"
  | "vfrom4", [a, b, c, d] =>
    match a.toNat?, b.toNat?, c.toNat?, d.toNat? with
    | some a, some b, some c, some d =>
      let v := Version.mk4 a b c d
      s!"{encodeVersion v} {encodeText v.render}"
    | _, _, _, _ => "badreq"
  | "vround", [t] =>
    -- parse, print, parse again: same in all five fields? printing stable?
    match decodeText t with
    | some t => match Version.parse t with
      | .ok v => match Version.parse v.render with
        | .ok v' => s!"ok same={b01 (decide (v = v'))} fixed={b01 (decide (v'.render = v.render))}"
        | .error e => "reparse-" ++ encodeKind e.kind
      | .error _ => "perr"
    | none => "badreq"
  | "serdev", [t] =>
    match decodeText t with
    | some t => match Version.parse t with
      | .ok v => match Version.fromJson v.toJson with
        | some v' => s!"ok {encodeText v.toJson} same={b01 (decide (v = v'))}"
        | none => "deser-fail"
      | .error _ => "perr"
    | none => "badreq"
  | "rparse", [t] =>
    match decodeText t with
    | some t => match Range.parse t with
      | .ok r => match Range.render r with
        | some d => "ok " ++ encodeText d
        | none => "panic"
      | .error e => encodeError e
    | none => "badreq"
  | "rround", [t] =>
    -- parse, print, parse: equal as values (PartialEq)? printing stable?
    withRange t (fun r => match Range.render r with
      | none => "panic"
      | some d => match Range.parse d with
        | .ok r' =>
          let eq := r.length == r'.length && (r.zip r').all (fun (x, y) => x.beq y)
          s!"ok eq={b01 eq} fixed={b01 (Range.render r' == some d)}"
        | .error e => "reparse-" ++ encodeKind e.kind)
  | "serder", [t] =>
    withRange t (fun r => match Range.toJson r with
      | none => "panic"
      | some j => match Range.fromJson j with
        | some r' =>
          let eq := r.length == r'.length && (r.zip r').all (fun (x, y) => x.beq y)
          s!"ok {encodeText j} eq={b01 eq}"
        | none => "deser-fail")
  | "sat", [r, v] =>
    match decodeVersion v with
    | some v => withRange r (fun r => b01 (r.satisfies v))
    | none => "badreq"
  | "isect", [a, b] => with2Ranges a b (fun a b => showRangeOpt (a.intersect b))
  | "rdiff", [a, b] => with2Ranges a b (fun a b => match a.difference b with
      | some r => showRangeOpt r
      | none => "panic")
  | "any", [a, b] => with2Ranges a b (fun a b => b01 (a.allowsAny b))
  | "all", [a, b] => with2Ranges a b (fun a b => b01 (a.allowsAll b))
  | "minv", [r] => withRange r (fun r => showVersionOpt r.minVersion)
  | "maxsat", r :: vs =>
    match vs.mapM decodeVersion with
    | some vs => withRange r (fun r => showVersionOpt (r.maxSatisfying vs))
    | none => "badreq"
  | "minsat", r :: vs =>
    match vs.mapM decodeVersion with
    | some vs => withRange r (fun r => showVersionOpt (r.minSatisfying vs))
    | none => "badreq"
  | "expr", [e] =>
    let toks := e.splitOn " "
    match parseExpr (toks.length + 1) toks with
    | some (ex, []) => match ex.eval with
      | some r => showRangeOpt r
      | none => "panic"
    | _ => "badreq"
  | "const", [] => s!"{MAX_SAFE_INTEGER} {MAX_LENGTH}"
  | _, _ => "badreq"

/-- oracles: spec-level checks of the crate's own answer; returns failing (property, detail) -/
def oracles (op : String) (args : List String) (impl : String) : List (String × String) :=
  match op, args with
  | "vcmp", [a, b] =>
    match decodeVersion a, decodeVersion b with
    | some a, some b =>
      let spec := Spec.prec a b
      let eqSpec := spec == .eq
      let want := s!"{ordStr spec} beq={b01 eqSpec}"
      -- hash: equal versions must hash equally (unequal may collide)
      let parts := impl.splitOn " "
      let okOrd := impl.startsWith want
      let okHash := !eqSpec || parts.getLast? == some "hash=1"
      (if okOrd then [] else [("C04", s!"cmp/eq: crate `{impl}` spec `{want}`")]) ++
      (if okHash then [] else [("C04", "equal versions hash differently")])
    | _, _ => []
  | _, _ => []

partial def loop (h : IO.FS.Stream) (out : IO.FS.Stream) : IO Unit := do
  let line ← h.getLine
  if line.isEmpty then return ()
  let line := (line.dropRightWhile (fun c => c == '\n' || c == '\r'))
  let fields := line.splitOn "\t"
  match fields with
  | op :: rest =>
    if rest.isEmpty then
      out.putStrLn "BAD"
    else
      let impl := rest.getLast!
      let args := rest.dropLast
      let m := answer op args
      let o := oracles op args impl
      let base := if m == impl then "OK" else "DIFF\t" ++ m
      let ostr := String.join (o.map (fun (p, d) => s!"\tORACLE\t{p}\t{d}"))
      out.putStrLn (base ++ ostr)
  | [] => out.putStrLn "BAD"
  loop h out

def main : IO Unit := do
  let stdin ← IO.getStdin
  let stdout ← IO.getStdout
  loop stdin stdout
