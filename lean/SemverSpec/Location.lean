/-!
# Line and column of a byte offset (C17), stated independently of the crate

Line = number of newline characters strictly before the offset; column = number of bytes between
the start of that line and the offset.  `none` if the offset is not on a character boundary of the
string (or beyond its end).
-/
namespace Semver.Spec

/-- walk the characters, tracking (bytes consumed, line, column) -/
def lineColAux : List Char → Nat → Nat → Nat → Nat → Option (Nat × Nat)
  | s, off, pos, line, col =>
    if pos = off then some (line, col)
    else match s with
      | [] => none
      | c :: cs =>
        if pos > off then none
        else if c = '\n' then lineColAux cs off (pos + c.utf8Size) (line + 1) 0
        else lineColAux cs off (pos + c.utf8Size) line (col + c.utf8Size)

def lineCol (s : List Char) (off : Nat) : Option (Nat × Nat) := lineColAux s off 0 0 0

/-- is `off` a character boundary of `s` (its length included)? -/
def isBoundary (s : List Char) (off : Nat) : Bool := (lineCol s off).isSome

end Semver.Spec
