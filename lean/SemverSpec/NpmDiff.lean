import SemverSpec.Precedence
import SemverModel.Diff
/-!
# node-semver's `diff(v1, v2)` release types, written from its documentation

README: "diff(v1, v2): Returns the difference between two versions by the release type (major,
premajor, minor, preminor, patch, prepatch, or prerelease), or null if the versions are the same."
The documented special cases (comments of `functions/diff.js`, node-semver 7.5–7.6) when going from
a prerelease to a release: a low version that "has only a major" (`X.0.0-pre`) is always a major
bump; otherwise the answer is read off the high version: a non-zero patch means `patch`, else a
non-zero minor means `minor`, else `major`.
-/
namespace Semver.Spec
open Semver

/-- the most significant field in which two versions differ -/
inductive Field where
  | major | minor | patch
deriving DecidableEq

def firstDiffering (a b : Version) : Option Field :=
  if a.major ≠ b.major then some .major
  else if a.minor ≠ b.minor then some .minor
  else if a.patch ≠ b.patch then some .patch
  else none

def hasTag (v : Version) : Bool := !v.pre.isEmpty

def releaseType (f : Field) (pre : Bool) : VersionDiff :=
  match f, pre with
  | .major, false => .major | .major, true => .preMajor
  | .minor, false => .minor | .minor, true => .preMinor
  | .patch, false => .patch | .patch, true => .prePatch

/-- `diff` on an ordered pair `low < high` -/
def diffOrdered (low high : Version) : VersionDiff :=
  if hasTag low && !hasTag high then
    if low.minor = 0 ∧ low.patch = 0 then .major
    else if high.patch ≠ 0 then .patch
    else if high.minor ≠ 0 then .minor
    else .major
  else
    match firstDiffering low high with
    | some f => releaseType f (hasTag high)
    | none => .preRelease

def npmDiff (a b : Version) : Option VersionDiff :=
  match prec a b with
  | .eq => none
  | .lt => some (diffOrdered a b)
  | .gt => some (diffOrdered b a)

end Semver.Spec
