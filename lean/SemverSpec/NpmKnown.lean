import SemverSpec.Npm
/-!
# npm's semantics with the crate's *known* deviations substituted (known findings K2, K3)

`Known.sat k2 k3` is `Npm.Ast.sat` with exactly these table entries replaced when the flag is set:

* K2 (pinned by the crate's own tests): `<M` is read as `<M.0.0` (npm: `<M.0.0-0`), `^0` as
  `<1.0.0-0` (npm: `>=0.0.0 <1.0.0-0`);
* K3: `<=M` / `<=M.m` whose bumped component is MAX_SAFE_INTEGER are read as `<=M.MAX.MAX` /
  `<=M.m.MAX` (npm's `<(M+1).0.0-0` is not a valid comparator there).

The check's oracle uses it to tell a known finding from a new violation; `C01_desugar_known` proves
that with both flags set it is *exactly* what the crate computes, for every tree and version.
-/
namespace Semver.Spec.Npm.Known
open Semver Semver.Spec Semver.Spec.Npm

def simpleComps (k2 k3 : Bool) (s : Simple) : Option (List Comp) :=
  match s with
  | .caret (.maj 0) => if k2 then checked [⟨.lt, pre0 1 0 0⟩] else s.comps.bind id
  | .prim .lt (.maj M) => if k2 then checked [⟨.lt, rel M 0 0⟩] else s.comps.bind id
  | .prim .le (.maj M) => if k3 && M == MAX then checked [⟨.le, rel M MAX MAX⟩] else s.comps.bind id
  | .prim .le (.majMin M m) => if k3 && m == MAX then checked [⟨.le, rel M m MAX⟩] else s.comps.bind id
  | s => s.comps.bind id

def altComps (k2 k3 : Bool) : Alt → Option (List Comp)
  | .hyphen lo hi => Npm.hyphen lo hi
  | .simples l =>
    let cs := l.filterMap (simpleComps k2 k3)
    if cs.isEmpty then none else some cs.flatten

def sat (k2 k3 : Bool) (r : Ast) (v : Version) : Bool :=
  r.any (fun a => match altComps k2 k3 a with
    | some cs => compsSat cs v
    | none => false)

end Semver.Spec.Npm.Known
