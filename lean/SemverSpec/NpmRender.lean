import SemverSpec.Npm
/-!
# Rendering npm range syntax trees to text, with the loose spellings the crate accepts,
# and a seeded generator of (tree, text) pairs for the correspondence / oracle runs
-/
namespace Semver.Spec.Npm
open Semver

/-- splitmix-style generator state -/
structure Gen where
  s : Nat

def Gen.next (g : Gen) : Nat × Gen :=
  let s := (g.s * 6364136223846793005 + 1442695040888963407) % 18446744073709551616
  let z := (s / 4294967296) % 4294967296
  (z, ⟨s⟩)

def Gen.below (g : Gen) (n : Nat) : Nat × Gen :=
  let (z, g') := g.next
  (z % (if n = 0 then 1 else n), g')

def Gen.pick {α} [Inhabited α] (g : Gen) (l : List α) : α × Gen :=
  let (i, g') := g.below l.length
  (l[i]!, g')

def digits (n : Nat) : List Char := (toString n).toList

def renderIdent : Ident → List Char
  | .num n => digits n
  | .alpha s => s

def renderIdList : List Ident → List Char
  | [] => []
  | [a] => renderIdent a
  | a :: rest => renderIdent a ++ '.' :: renderIdList rest

def startsWithLetter : List Ident → Bool
  | .alpha (c :: _) :: _ => (c.toNat ≥ 97 && c.toNat ≤ 122) || (c.toNat ≥ 65 && c.toNat ≤ 90)
  | _ => false

def genNum (g : Gen) (n : Nat) : List Char × Gen :=
  let (k, g) := g.below 8
  if k == 0 then ('0' :: digits n, g) else if k == 1 then ('0' :: '0' :: digits n, g) else (digits n, g)

def genWild (g : Gen) : List Char × Gen := g.pick ["x".toList, "X".toList, "*".toList]

def genQualifier (g : Gen) (pre build : List Ident) : List Char × Gen :=
  let (k, g) := g.below 4
  let p := if pre.isEmpty then [] else
    (if k == 0 && startsWithLetter pre then renderIdList pre else '-' :: renderIdList pre)
  let b := if build.isEmpty then [] else '+' :: renderIdList build
  (p ++ b, g)

/-- a partial in one of its spellings -/
def genPartial (g : Gen) (p : NP) : List Char × Gen :=
  let (kv, g) := g.below 10
  let v : List Char := if kv == 0 then ['v'] else []
  match p with
  | .any =>
    let (k, g) := g.below 5
    let (w, g) := genWild g
    let (w2, g) := genWild g
    let (n, g) := genNum g 1
    let (n2, g) := genNum g 2
    if k == 0 then (v ++ w ++ '.' :: n, g)
    else if k == 1 then (v ++ w ++ '.' :: n ++ '.' :: n2, g)
    else if k == 2 then (v ++ w ++ '.' :: w2, g)
    else (v ++ w, g)
  | .maj M =>
    let (m, g) := genNum g M
    let (k, g) := g.below 6
    let (w, g) := genWild g
    let (w2, g) := genWild g
    let (n, g) := genNum g 5
    if k == 0 then (v ++ m ++ '.' :: w, g)
    else if k == 1 then (v ++ m ++ '.' :: w ++ '.' :: w2, g)
    else if k == 2 then (v ++ m ++ '.' :: w ++ '.' :: n, g)
    else (v ++ m, g)
  | .majMin M m =>
    let (a, g) := genNum g M
    let (b, g) := genNum g m
    let (k, g) := g.below 5
    let (w, g) := genWild g
    if k == 0 then (v ++ a ++ '.' :: b ++ '.' :: w, g)
    else if k == 1 then (v ++ a ++ '.' :: b ++ '.' :: w ++ "-alpha".toList, g)
    else (v ++ a ++ '.' :: b, g)
  | .full M m p pre build =>
    let (a, g) := genNum g M
    let (b, g) := genNum g m
    let (c, g) := genNum g p
    let (q, g) := genQualifier g pre build
    (v ++ a ++ '.' :: b ++ '.' :: c ++ q, g)

def genGap (g : Gen) : List Char × Gen :=
  g.pick [[], [], [], [], [' '], [' ', ' '], ['\t']]

def genBlanks1 (g : Gen) : List Char × Gen :=
  g.pick [[' '], [' '], [' '], [' ', ' '], ['\t'], [' ', '\t']]

def opText : Op → List Char
  | .lt => ['<'] | .le => ['<', '='] | .gt => ['>'] | .ge => ['>', '='] | .eq => ['=']

def genSimple (g : Gen) : Simple → List Char × Gen
  | .prim op p =>
    let (gap, g) := genGap g
    let (t, g) := genPartial g p
    (opText op ++ gap ++ t, g)
  | .bare p => genPartial g p
  | .tilde p =>
    let (k, g) := g.below 3
    let (gap, g) := genGap g
    let (gap2, g) := genGap g
    let (t, g) := genPartial g p
    if k == 0 then ('~' :: gap ++ '>' :: gap2 ++ t, g) else ('~' :: gap ++ t, g)
  | .caret p =>
    let (gap, g) := genGap g
    let (t, g) := genPartial g p
    ('^' :: gap ++ t, g)
  | .garbage tok => (tok, g)

def genSimples (g : Gen) : List Simple → List Char × Gen
  | [] => ([], g)
  | [s] => genSimple g s
  | s :: rest =>
    let (a, g) := genSimple g s
    let (b, g) := genBlanks1 g
    let (c, g) := genSimples g rest
    (a ++ b ++ c, g)

def genAlt (g : Gen) : Alt → List Char × Gen
  | .hyphen lo hi =>
    let (a, g) := genPartial g lo
    let (b1, g) := genBlanks1 g
    let (b2, g) := genBlanks1 g
    let (c, g) := genPartial g hi
    (a ++ b1 ++ '-' :: b2 ++ c, g)
  | .simples l => genSimples g l

def genOr (g : Gen) : List Char × Gen :=
  g.pick ["||".toList, " || ".toList, " ||".toList, "|| ".toList, "  ||\t".toList]

def genAst (g : Gen) : Ast → List Char × Gen
  | [] => ([], g)
  | [a] => genAlt g a
  | a :: rest =>
    let (x, g) := genAlt g a
    let (o, g) := genOr g
    let (y, g) := genAst g rest
    (x ++ o ++ y, g)

/-! ### random syntax trees -/

def tagPool : List (List Ident) :=
  [[], [], [], [.alpha "alpha".toList], [.alpha "beta".toList, .num 1], [.num 0], [.num 1],
   [.alpha "rc".toList, .num 1], [.alpha "a".toList], [.alpha "0a".toList], [.num 7, .num 8],
   [.num 18446744073709551615], [.num 10000000000000000000], [.alpha "-".toList], [.alpha "10a".toList],
   [.alpha "alpha".toList, .num 0], [.alpha "alpha".toList, .num 0, .num 1],
   [.alpha "a".toList, .alpha "b".toList, .alpha "c".toList, .num 1, .num 2, .num 3]]

def buildPool : List (List Ident) := [[], [], [], [], [.alpha "build".toList], [.num 1]]

def numPool : List Nat := [0, 0, 1, 1, 2, 3, 10, 900719925474099]

/-- a number of random *magnitude* (bit length first, then the bits), at most MAX_SAFE_INTEGER; every
third one sits at a power of two or its neighbours -/
def Gen.wide (g : Gen) : Nat × Gen :=
  let (bits, g) := g.below 50
  let (hi, g) := g.next
  let (lo, g) := g.next
  let (k, g) := g.below 9
  let raw := (hi * 4294967296 + lo) % (2 ^ bits) + (if bits = 0 then 0 else 2 ^ (bits - 1))
  let v := if k == 0 then 2 ^ bits else if k == 1 then 2 ^ bits - 1 else if k == 2 then 2 ^ bits + 1 else raw
  (min v 900719925474099, g)

def Gen.num (g : Gen) : Nat × Gen :=
  let (k, g) := g.below 5
  if k == 0 then g.wide else g.pick numPool

def randNP (g : Gen) : NP × Gen :=
  let (k, g) := g.below 10
  let (a, g) := g.num
  let (b, g) := g.num
  let (c, g) := g.num
  let (p, g) := g.pick tagPool
  let (q, g) := g.pick buildPool
  if k == 0 then (.any, g)
  else if k ≤ 2 then (.maj a, g)
  else if k ≤ 4 then (.majMin a b, g)
  else (.full a b c p q, g)

/-- a partial near a base triple: the same numbers (sometimes one more), any shape, any tag — so that
the comparators of one alternative meet after desugaring (`^0.0` next to `>=0.0.0-alpha`) -/
def randNPnear (g : Gen) (a b c : Nat) : NP × Gen :=
  let (k, g) := g.below 10
  let (da, g) := g.below 5
  let (db, g) := g.below 5
  let (dc, g) := g.below 5
  let (p, g) := g.pick tagPool
  let (q, g) := g.pick buildPool
  let a' := if da == 0 then a + 1 else a
  let b' := if db == 0 then b + 1 else b
  let c' := if dc == 0 then c + 1 else c
  if k == 0 then (.any, g)
  else if k ≤ 2 then (.maj a', g)
  else if k ≤ 4 then (.majMin a' b', g)
  else (.full a' b' c' p q, g)

def randSimpleNear (g : Gen) (a b c : Nat) : Simple × Gen :=
  let (k, g) := g.below 12
  let (p, g) := randNPnear g a b c
  if k ≤ 2 then (.bare p, g)
  else if k ≤ 4 then (.tilde p, g)
  else if k ≤ 6 then (.caret p, g)
  else
    let (o, g) := g.pick [Op.lt, .le, .gt, .ge, .eq, .lt, .le, .gt, .ge]
    (.prim o p, g)

def randSimplesNear (g : Gen) (a b c : Nat) : Nat → List Simple × Gen
  | 0 => ([], g)
  | n + 1 =>
    let (s, g) := randSimpleNear g a b c
    let (rest, g) := randSimplesNear g a b c n
    (s :: rest, g)

def garbagePool : List (List Char) :=
  ["foo".toList, "1.y".toList, ">=1.y".toList, "1.2.3.4".toList, "1.2beta4".toList, ">>1".toList, "1.".toList]

def randSimple (g : Gen) (garbage : Bool) : Simple × Gen :=
  let (k, g) := g.below 12
  let (p, g) := randNP g
  let (tok, g) := g.pick garbagePool
  if k == 0 && garbage then (.garbage tok, g)
  else if k ≤ 2 then (.bare p, g)
  else if k == 3 then (.tilde p, g)
  else if k == 4 then (.caret p, g)
  else
    let (o, g) := g.pick [Op.lt, .le, .gt, .ge, .eq, .lt, .le, .gt, .ge]
    (.prim o p, g)

def randSimples (g : Gen) (garbage : Bool) : Nat → List Simple × Gen
  | 0 => ([], g)
  | n + 1 =>
    let (s, g) := randSimple g garbage
    let (rest, g) := randSimples g garbage n
    (s :: rest, g)

def randAlt (g : Gen) (garbage : Bool) : Alt × Gen :=
  let (k, g) := g.below 6
  if k == 0 then
    let (a, g) := randNP g
    let (b, g) := randNP g
    (.hyphen a b, g)
  else
    let (n, g) := g.pick [1, 1, 1, 1, 2, 2, 2, 3, 3, 4, 6]
    let (near, g) := g.below 3
    if near == 0 then
      -- comparators around one base triple (zeros are likely)
      let (a, g) := g.pick [0, 0, 0, 1, 1, 2, 10]
      let (b, g) := g.pick [0, 0, 0, 1, 1, 2, 10]
      let (c, g) := g.pick [0, 0, 0, 1, 1, 2, 10]
      let (l, g) := randSimplesNear g a b c (n + 1)
      (.simples l, g)
    else
    let (l, g) := randSimples g garbage n
    (.simples l, g)

def randAlts (g : Gen) (garbage : Bool) : Nat → Ast × Gen
  | 0 => ([], g)
  | n + 1 =>
    let (a, g) := randAlt g garbage
    let (rest, g) := randAlts g garbage n
    (a :: rest, g)

def randAst (g : Gen) (garbage : Bool) : Ast × Gen :=
  let (n, g) := g.pick [1, 1, 1, 1, 2, 2, 2, 3, 3, 5, 9]
  randAlts g garbage n

/-- the versions on which a tree is evaluated: the neighbourhood of every comparator version -/
def Ast.grid (r : Ast) : List Version :=
  let vs := r.flatMap (fun a => match a.comps with
    | some cs => cs.map (·.v)
    | none => [])
  [⟨0, 0, 0, [.num 0], []⟩, ⟨0, 0, 0, [], []⟩] ++ vs.flatMap around

end Semver.Spec.Npm
