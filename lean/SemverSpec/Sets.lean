import SemverSpec.Precedence
/-!
# Sets of versions denoted by intervals, written from the documentation

An interval is a pair of optional endpoints, each inclusive or exclusive.  `within` is plain
bounds membership under §11 precedence; `sat` adds node-semver's documented prerelease rule:
"If a version has a prerelease tag (for example, 1.2.3-alpha.3) then it will only be allowed to
satisfy comparator sets if at least one comparator with the same [major, minor, patch] tuple also
has a prerelease tag."
-/
namespace Semver.Spec
open Semver

structure Endpoint where
  v : Version
  inclusive : Bool
deriving Repr

structure Interval where
  lower : Option Endpoint
  upper : Option Endpoint
deriving Repr

def aboveLower (l : Option Endpoint) (v : Version) : Bool :=
  match l with
  | none => true
  | some e => if e.inclusive then prec e.v v != .gt else prec e.v v == .lt

def belowUpper (u : Option Endpoint) (v : Version) : Bool :=
  match u with
  | none => true
  | some e => if e.inclusive then prec v e.v != .gt else prec v e.v == .lt

def Interval.within (i : Interval) (v : Version) : Bool := aboveLower i.lower v && belowUpper i.upper v

def sameTriple (a b : Version) : Bool := a.major == b.major && a.minor == b.minor && a.patch == b.patch

def endpointTagged (e : Option Endpoint) (v : Version) : Bool :=
  match e with
  | none => false
  | some e => !e.v.pre.isEmpty && sameTriple e.v v

def Interval.tagged (i : Interval) (v : Version) : Bool := endpointTagged i.lower v || endpointTagged i.upper v

def Interval.sat (i : Interval) (v : Version) : Bool :=
  i.within v && (v.pre.isEmpty || i.tagged v)

/-- a union of intervals -/
abbrev VSet := List Interval

def VSet.within (s : VSet) (v : Version) : Bool := s.any (·.within v)
def VSet.sat (s : VSet) (v : Version) : Bool := s.any (·.sat v)

/-- the points immediately around a version in §11 order: itself, its immediate successor, the
release and the first prerelease of its tuple and of the neighbouring tuples -/
def around (v : Version) : List Version :=
  let rel (a b c : Nat) : Version := ⟨a, b, c, [], []⟩
  let pre0 (a b c : Nat) : Version := ⟨a, b, c, [.num 0], []⟩
  [v, { v with pre := v.pre ++ [.num 0] }, rel v.major v.minor v.patch, pre0 v.major v.minor v.patch,
   rel v.major v.minor (v.patch + 1), pre0 v.major v.minor (v.patch + 1),
   ⟨v.major, v.minor, v.patch, [.alpha "zz".toList], []⟩,
   ⟨v.major, v.minor, v.patch, [.num 0, .num 0], []⟩,
   rel v.major (v.minor + 1) 0, pre0 v.major (v.minor + 1) 0, rel (v.major + 1) 0 0, pre0 (v.major + 1) 0 0]
  ++ (if v.patch > 0 then [rel v.major v.minor (v.patch - 1), ⟨v.major, v.minor, v.patch - 1, [.alpha "zz".toList], []⟩] else [])
  ++ (if v.minor > 0 then [rel v.major (v.minor - 1) 900719925474099] else [])
  ++ (if v.major > 0 then [rel (v.major - 1) 900719925474099 900719925474099] else [])
  ++ (match v.pre.reverse with
      | _ :: (r :: rs) => [{ v with pre := (r :: rs).reverse }]
      | _ => [])

def VSet.endpoints (s : VSet) : List Version :=
  s.flatMap (fun i => (i.lower.toList ++ i.upper.toList).map (·.v))

/-- at most about `cap` of the endpoints: the first and last twenty and an even stride in between
(operands with thousands of alternatives are judged on a sample of their bounds) -/
def capEndpoints (cap : Nat) (eps : List Version) : List Version :=
  if eps.length ≤ cap then eps else
    let stride := eps.length / cap + 1
    let idx := (List.range eps.length).filter (fun i => i < 20 || i + 20 ≥ eps.length || i % stride == 0)
    idx.filterMap (fun i => eps[i]?)

/-- the grid on which set identities are evaluated pointwise -/
def grid (sets : List VSet) : List Version :=
  [⟨0, 0, 0, [.num 0], []⟩, ⟨0, 0, 0, [], []⟩] ++ (capEndpoints 400 (sets.flatMap VSet.endpoints)).flatMap around

end Semver.Spec
