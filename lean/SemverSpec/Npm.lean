import SemverSpec.Precedence
import SemverSpec.Sets
/-!
# npm's documented range semantics (node-semver README: "Ranges", "Advanced Range Syntax",
# "Prerelease Tags", "Range Grammar"), written without looking at the Rust

A range is a list of alternatives (`||`); an alternative is a hyphen range or a list of simple
ranges (primitive, bare partial / X-range, tilde, caret) that must all hold.  Every simple range
desugars to comparators `op version`; a version satisfies a comparator set if every comparator
admits it by precedence and — if the version has a prerelease tag — at least one comparator with
the same `[major, minor, patch]` tuple also has a prerelease tag.

Partials: `xr ( '.' xr ( '.' xr qualifier? )? )?`; as in node-semver everything after the first
wildcard is a wildcard and a qualifier only counts on a full triple.  A comparator whose version
would exceed MAX_SAFE_INTEGER in a component is not valid (node-semver rejects it).
-/
namespace Semver.Spec.Npm
open Semver Semver.Spec

inductive Op where
  | lt | le | gt | ge | eq
deriving DecidableEq, Repr, Inhabited

structure Comp where
  op : Op
  v : Version
deriving Repr

def Comp.admits (c : Comp) (v : Version) : Bool :=
  match c.op with
  | .lt => prec v c.v == .lt
  | .le => prec v c.v != .gt
  | .gt => prec v c.v == .gt
  | .ge => prec v c.v != .lt
  | .eq => prec v c.v == .eq

def Comp.tagged (c : Comp) (v : Version) : Bool := !c.v.pre.isEmpty && sameTriple c.v v

/-- "Prerelease Tags" -/
def compsSat (cs : List Comp) (v : Version) : Bool :=
  cs.all (·.admits v) && (v.pre.isEmpty || cs.any (·.tagged v))

/-- a partial version after wildcard propagation -/
inductive NP where
  | any
  | maj (M : Nat)
  | majMin (M m : Nat)
  | full (M m p : Nat) (pre build : List Ident)
deriving Repr

def rel (a b c : Nat) : Version := ⟨a, b, c, [], []⟩
def pre0 (a b c : Nat) : Version := ⟨a, b, c, [.num 0], []⟩

def MAX : Nat := 900719925474099

def validComp (c : Comp) : Bool := c.v.major ≤ MAX && c.v.minor ≤ MAX && c.v.patch ≤ MAX

/-- a comparator list, `none` if some comparator is not valid -/
def checked (cs : List Comp) : Option (List Comp) := if cs.all validComp then some cs else none

/-- X-Ranges / partials used as a range on their own -/
def bare : NP → Option (List Comp)
  | .any => checked [⟨.ge, rel 0 0 0⟩]
  | .maj M => checked [⟨.ge, rel M 0 0⟩, ⟨.lt, pre0 (M + 1) 0 0⟩]
  | .majMin M m => checked [⟨.ge, rel M m 0⟩, ⟨.lt, pre0 M (m + 1) 0⟩]
  | .full M m p pre build => checked [⟨.eq, ⟨M, m, p, pre, build⟩⟩]

/-- primitive operators applied to a (possibly partial) version -/
def prim : Op → NP → Option (List Comp)
  | .eq, p => bare p
  | .gt, .any => checked [⟨.lt, pre0 0 0 0⟩]        -- nothing is greater than everything
  | .lt, .any => checked [⟨.lt, pre0 0 0 0⟩]        -- nothing is less than everything
  | .ge, .any => bare .any
  | .le, .any => bare .any
  | .gt, .maj M => checked [⟨.ge, rel (M + 1) 0 0⟩]
  | .gt, .majMin M m => checked [⟨.ge, rel M (m + 1) 0⟩]
  | .ge, .maj M => checked [⟨.ge, rel M 0 0⟩]
  | .ge, .majMin M m => checked [⟨.ge, rel M m 0⟩]
  | .lt, .maj M => checked [⟨.lt, pre0 M 0 0⟩]
  | .lt, .majMin M m => checked [⟨.lt, pre0 M m 0⟩]
  | .le, .maj M => checked [⟨.lt, pre0 (M + 1) 0 0⟩]
  | .le, .majMin M m => checked [⟨.lt, pre0 M (m + 1) 0⟩]
  | op, .full M m p pre build => checked [⟨op, ⟨M, m, p, pre, build⟩⟩]

/-- Tilde Ranges: patch-level changes if a minor is given, minor-level changes if not -/
def tilde : NP → Option (List Comp)
  | .any => bare .any
  | .maj M => checked [⟨.ge, rel M 0 0⟩, ⟨.lt, pre0 (M + 1) 0 0⟩]
  | .majMin M m => checked [⟨.ge, rel M m 0⟩, ⟨.lt, pre0 M (m + 1) 0⟩]
  | .full M m p pre _ => checked [⟨.ge, ⟨M, m, p, pre, []⟩⟩, ⟨.lt, pre0 M (m + 1) 0⟩]

/-- Caret Ranges: changes that do not modify the left-most non-zero element -/
def caret : NP → Option (List Comp)
  | .any => bare .any
  | .maj M => checked [⟨.ge, rel M 0 0⟩, ⟨.lt, pre0 (M + 1) 0 0⟩]
  | .majMin M m =>
    if M = 0 then checked [⟨.ge, rel 0 m 0⟩, ⟨.lt, pre0 0 (m + 1) 0⟩]
    else checked [⟨.ge, rel M m 0⟩, ⟨.lt, pre0 (M + 1) 0 0⟩]
  | .full M m p pre _ =>
    let lower : Comp := ⟨.ge, ⟨M, m, p, pre, []⟩⟩
    if M ≠ 0 then checked [lower, ⟨.lt, pre0 (M + 1) 0 0⟩]
    else if m ≠ 0 then checked [lower, ⟨.lt, pre0 0 (m + 1) 0⟩]
    else checked [lower, ⟨.lt, pre0 0 0 (p + 1)⟩]

/-- Hyphen Ranges: inclusive set; a partial lower bound is filled with zeroes, a partial upper bound
accepts everything starting with the given parts -/
def hyphen (lo hi : NP) : Option (List Comp) :=
  let l : List Comp := match lo with
    | .any => []
    | .maj M => [⟨.ge, rel M 0 0⟩]
    | .majMin M m => [⟨.ge, rel M m 0⟩]
    | .full M m p pre build => [⟨.ge, ⟨M, m, p, pre, build⟩⟩]
  let h : List Comp := match hi with
    | .any => []
    | .maj M => [⟨.lt, pre0 (M + 1) 0 0⟩]
    | .majMin M m => [⟨.lt, pre0 M (m + 1) 0⟩]
    | .full M m p pre build => [⟨.le, ⟨M, m, p, pre, build⟩⟩]
  checked (l ++ h)

/-! ### syntax trees -/

inductive Simple where
  | prim (op : Op) (p : NP)
  | bare (p : NP)
  | tilde (p : NP)
  | caret (p : NP)
  /-- a token that is no comparator at all (loose mode drops it) -/
  | garbage (tok : List Char)
deriving Repr

inductive Alt where
  | hyphen (lo hi : NP)
  | simples (l : List Simple)
deriving Repr

abbrev Ast := List Alt

def Simple.comps : Simple → Option (Option (List Comp))
  | .prim op p => some (Npm.prim op p)
  | .bare p => some (Npm.bare p)
  | .tilde p => some (Npm.tilde p)
  | .caret p => some (Npm.caret p)
  | .garbage _ => none

/-- comparators of one alternative: invalid and garbage tokens are dropped (loose mode); `none` if
no valid comparator is left -/
def Alt.comps : Alt → Option (List Comp)
  | .hyphen lo hi => Npm.hyphen lo hi
  | .simples l =>
    let cs := l.filterMap (fun s => s.comps.bind id)
    if cs.isEmpty then none else some cs.flatten

def Alt.sat (a : Alt) (v : Version) : Bool :=
  match a.comps with
  | some cs => compsSat cs v
  | none => false

def Ast.sat (r : Ast) (v : Version) : Bool := r.any (·.sat v)

/-- does the text contain any valid comparator? -/
def Ast.hasComparator (r : Ast) : Bool := r.any (fun a => a.comps.isSome)

end Semver.Spec.Npm
