import SemverSpec.NpmRender
import SemverSpec.VersionGrammar
/-!
# The npm range grammar as a relation between syntax trees and texts

`AstText r s`: the text `s` is a spelling of the syntax tree `r` in the documented range grammar
(node-semver README, "Range Grammar") together with the loose spellings the crate accepts:

```
range-set  ::= blank* range ( blank* '||' blank* range )* blank*
range      ::= hyphen | simple ( blank+ simple )* | ''
hyphen     ::= partial blank+ '-' blank+ partial
simple     ::= primitive | partial | tilde | caret | garbage
primitive  ::= ( '<' | '>' | '>=' | '<=' | '=' ) blank* partial
partial    ::= ( 'v' blank* )? xr ( '.' xr ( '.' xr qualifier? )? )?
xr         ::= 'x' | 'X' | '*' | nr            (nr: decimal digits, leading zeros tolerated, ≤ MAX_SAFE_INTEGER)
tilde      ::= '~' blank* ( '>' blank* )? partial
caret      ::= '^' blank* partial
qualifier  ::= ( '-'? pre )? ( '+' build )?    (without the hyphen, `pre` starts with a letter)
garbage    ::= a blank-free, bar-free token whose first character can start none of the above
```

The tree a text denotes normalises partials the way node-semver does: everything after the first
wildcard is a wildcard, a qualifier only counts on a full triple (`npOf`).

This file is specification: it mentions no parser.  `Lemmas/NpmParse.lean` proves that the crate's
parser maps every text of this grammar to the desugaring tables applied to the tree it denotes.
-/
namespace Semver.Spec.Npm
open Semver Semver.Spec

def Blanks (b : List Char) : Prop := b.all blank = true
def Blanks1 (b : List Char) : Prop := b ≠ [] ∧ b.all blank = true
instance (b : List Char) : Decidable (Blanks b) := by unfold Blanks; infer_instance
instance (b : List Char) : Decidable (Blanks1 b) := by unfold Blanks1; infer_instance

def WildText (w : List Char) : Prop := w = ['x'] ∨ w = ['X'] ∨ w = ['*']

/-- `xr` -/
inductive XrText : List Char → Option Nat → Prop
  | wild {w} : WildText w → XrText w none
  | num {A n} : NumText A n → XrText A (some n)

/-- the partial a component triple denotes (node-semver: after the first wildcard all is wildcard;
the qualifier only counts on a full triple) -/
def npOf : Option Nat → Option Nat → Option Nat → List Ident → List Ident → NP
  | some M, some m, some p, pre, build => .full M m p pre build
  | some M, some m, none, _, _ => .majMin M m
  | some M, none, _, _, _ => .maj M
  | none, _, _, _, _ => .any

inductive PartialBody : List Char → NP → Prop
  | one {A a} : XrText A a → PartialBody A (npOf a none none [] [])
  | two {A B a b} : XrText A a → XrText B b → PartialBody (A ++ '.' :: B) (npOf a b none [] [])
  | three {A B C P Q a b c pre build} : XrText A a → XrText B b → XrText C c →
      PreText P pre → BuildText Q build →
      PartialBody (A ++ '.' :: (B ++ '.' :: (C ++ (P ++ Q)))) (npOf a b c pre build)

/-- `partial`, with the optional `v` (and blanks after it) -/
def PartialText (s : List Char) (p : NP) : Prop :=
  PartialBody s p ∨ ∃ b body, s = 'v' :: (b ++ body) ∧ Blanks b ∧ PartialBody body p

/-- characters that can start a comparator, a separator or a hyphen range -/
def tokenStart (c : Char) : Bool :=
  digit c || blank c || c == 'x' || c == 'X' || c == '*' || c == 'v' || c == '<' || c == '>' || c == '=' ||
    c == '~' || c == '^' || c == '-' || c == '|'

/-- a token that is certainly no comparator: its first character starts none, and it contains no
blank and no bar -/
def GarbageTok (tok : List Char) : Prop :=
  ∃ c t, tok = c :: t ∧ tokenStart c = false ∧ ∀ d ∈ tok, blank d = false ∧ d ≠ '|'

/-- simple ranges; `G` is the class of tokens that are dropped as garbage -/
inductive SimpleTextG (G : List Char → Prop) : Simple → List Char → Prop
  | prim {op p gap t} : Blanks gap → PartialText t p → SimpleTextG G (.prim op p) (opText op ++ (gap ++ t))
  | bare {p t} : PartialText t p → SimpleTextG G (.bare p) t
  | tilde {p gap t} : Blanks gap → PartialText t p → SimpleTextG G (.tilde p) ('~' :: (gap ++ t))
  | tildeGt {p gap gap2 t} : Blanks gap → Blanks gap2 → PartialText t p →
      SimpleTextG G (.tilde p) ('~' :: (gap ++ '>' :: (gap2 ++ t)))
  | caret {p gap t} : Blanks gap → PartialText t p → SimpleTextG G (.caret p) ('^' :: (gap ++ t))
  | garbage {tok} : G tok → SimpleTextG G (.garbage tok) tok

/-- `simple ( blank+ simple )*`, or nothing -/
inductive SimplesTextG (G : List Char → Prop) : List Simple → List Char → Prop
  | nil : SimplesTextG G [] []
  | one {s t} : SimpleTextG G s t → SimplesTextG G [s] t
  | cons {s t b l T} : SimpleTextG G s t → Blanks1 b → SimplesTextG G l T → l ≠ [] →
      SimplesTextG G (s :: l) (t ++ (b ++ T))

inductive AltTextG (G : List Char → Prop) : Alt → List Char → Prop
  | simples {l t} : SimplesTextG G l t → AltTextG G (.simples l) t
  | hyphen {lo hi a b1 b2 c} : PartialText a lo → Blanks1 b1 → Blanks1 b2 → PartialText c hi →
      AltTextG G (.hyphen lo hi) (a ++ (b1 ++ '-' :: (b2 ++ c)))

/-- `blank* '||' blank*` -/
def OrText (o : List Char) : Prop := ∃ b1 b2, o = b1 ++ '|' :: '|' :: b2 ∧ Blanks b1 ∧ Blanks b2

inductive AltsTextG (G : List Char → Prop) : Ast → List Char → Prop
  | nil : AltsTextG G [] []
  | one {a t} : AltTextG G a t → AltsTextG G [a] t
  | cons {a t o r T} : AltTextG G a t → OrText o → AltsTextG G r T → r ≠ [] → AltsTextG G (a :: r) (t ++ (o ++ T))

/-- a whole range text: alternatives, with blanks around -/
def AstTextG (G : List Char → Prop) (r : Ast) (s : List Char) : Prop :=
  ∃ b1 T b2, s = b1 ++ (T ++ b2) ∧ Blanks b1 ∧ Blanks b2 ∧ AltsTextG G r T

/-! The grammar with the parser-independent garbage class `GarbageTok` (tokens whose first character
can start no comparator).  `Lemmas/Closed.lean` instantiates `G` with a wider class: every closed
token in which the parser recognises no comparator. -/
abbrev SimpleText := SimpleTextG GarbageTok
abbrev SimplesText := SimplesTextG GarbageTok
abbrev AltText := AltTextG GarbageTok
abbrev AltsText := AltsTextG GarbageTok
abbrev AstText := AstTextG GarbageTok

/-! ### examples: the grammar is inhabited by the texts one expects -/

theorem numText_one : NumText ['1'] 1 := ⟨by decide, by decide, by decide, by decide⟩
theorem numText_02 : NumText ['0', '2'] 2 := ⟨by decide, by decide, by decide, by decide⟩

/-- `^1.x || >= v02` -/
theorem astText_example : AstText [.simples [.caret (.maj 1)], .simples [.prim .ge (.maj 2)]] "^1.x || >= v02".toList := by
  refine ⟨[], "^1.x || >= v02".toList, [], by decide, by decide, by decide, ?_⟩
  have a1 : AltText (.simples [.caret (.maj 1)]) "^1.x".toList :=
    .simples (.one (.caret (gap := []) (by decide)
      (Or.inl (.two (A := ['1']) (B := ['x']) (.num numText_one) (.wild (Or.inl rfl))))))
  have a2 : AltText (.simples [.prim .ge (.maj 2)]) ">= v02".toList :=
    .simples (.one (.prim (op := .ge) (gap := [' ']) (by decide)
      (Or.inr ⟨[], ['0', '2'], rfl, by decide, .one (.num numText_02)⟩)))
  exact .cons a1 ⟨[' '], [' '], rfl, by decide, by decide⟩ (.one a2) (by simp)

end Semver.Spec.Npm
