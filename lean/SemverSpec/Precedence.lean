import SemverModel.Basic
/-!
# SemVer 2.0.0 §11 precedence, written from the specification text

§11.1 build metadata does not figure into precedence; §11.2 major, minor, patch numerically, first
difference decides; §11.3 a pre-release version has lower precedence than the normal version;
§11.4 pre-release identifiers left to right: (1) digits-only numerically, (2) others lexically in
ASCII order, (3) numeric lower than non-numeric, (4) a larger set of fields is higher if all
preceding identifiers are equal.
-/
namespace Semver.Spec
open Semver

/-- §11.4.2 lexical (ASCII) order on identifier text -/
inductive StrLt : List Char → List Char → Prop
  | nil {c t} : StrLt [] (c :: t)
  | head {c d s t} : c.toNat < d.toNat → StrLt (c :: s) (d :: t)
  | tail {c s t} : StrLt s t → StrLt (c :: s) (c :: t)

/-- §11.4.1–3 -/
inductive IdLt : Ident → Ident → Prop
  | numNum {a b} : a < b → IdLt (.num a) (.num b)
  | numAlpha {a s} : IdLt (.num a) (.alpha s)
  | alphaAlpha {s t} : StrLt s t → IdLt (.alpha s) (.alpha t)

/-- §11.4: first differing identifier decides; §11.4.4 a strict prefix is lower -/
inductive PreLt : List Ident → List Ident → Prop
  | fewer {b bs} : PreLt [] (b :: bs)
  | head {a b as bs} : IdLt a b → PreLt (a :: as) (b :: bs)
  | tail {a as bs} : PreLt as bs → PreLt (a :: as) (a :: bs)

/-- §11.2–11.4 -/
inductive VLt : Version → Version → Prop
  | major {a b} : a.major < b.major → VLt a b
  | minor {a b} : a.major = b.major → a.minor < b.minor → VLt a b
  | patch {a b} : a.major = b.major → a.minor = b.minor → a.patch < b.patch → VLt a b
  | release {a b} : a.major = b.major → a.minor = b.minor → a.patch = b.patch →
      a.pre ≠ [] → b.pre = [] → VLt a b
  | pre {a b} : a.major = b.major → a.minor = b.minor → a.patch = b.patch →
      a.pre ≠ [] → b.pre ≠ [] → PreLt a.pre b.pre → VLt a b

/-- equal precedence: everything but build metadata agrees (§11.1) -/
def VEq (a b : Version) : Prop :=
  a.major = b.major ∧ a.minor = b.minor ∧ a.patch = b.patch ∧ a.pre = b.pre

/-! Executable decision procedure, written directly from the clauses above (used as the oracle). -/

def strCmp : List Char → List Char → Ordering
  | [], [] => .eq
  | [], _ :: _ => .lt
  | _ :: _, [] => .gt
  | c :: s, d :: t =>
    if c.toNat < d.toNat then .lt else if d.toNat < c.toNat then .gt else strCmp s t

def idCmp : Ident → Ident → Ordering
  | .num a, .num b => if a < b then .lt else if b < a then .gt else .eq
  | .num _, .alpha _ => .lt
  | .alpha _, .num _ => .gt
  | .alpha s, .alpha t => strCmp s t

def preCmp : List Ident → List Ident → Ordering
  | [], [] => .eq
  | [], _ :: _ => .lt
  | _ :: _, [] => .gt
  | a :: as, b :: bs =>
    match idCmp a b with
    | .eq => preCmp as bs
    | o => o

def prec (a b : Version) : Ordering :=
  if a.major < b.major then .lt else if b.major < a.major then .gt
  else if a.minor < b.minor then .lt else if b.minor < a.minor then .gt
  else if a.patch < b.patch then .lt else if b.patch < a.patch then .gt
  else match a.pre, b.pre with
    | [], [] => .eq
    | [], _ :: _ => .gt
    | _ :: _, [] => .lt
    | p, q => preCmp p q

end Semver.Spec
