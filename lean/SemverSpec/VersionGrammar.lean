import SemverSpec.VersionLang
/-!
# The version language as a grammar (relation between strings and versions)

`VersionLang s v`: `s` is `[vV]? blank* A '.' B '.' C P Q blank*` where `A B C` are number texts
denoting `v`'s components, `P` is empty, `-` followed by dot-separated identifier texts, or
identifier texts starting with a letter (the loose spelling without the hyphen), `Q` is empty or
`+` followed by identifier texts; the texts denote `v`'s identifiers; `s` is at most 256 bytes.
-/
namespace Semver.Spec
open Semver

def NumText (A : List Char) (n : Nat) : Prop :=
  A ≠ [] ∧ A.all digit = true ∧ decimal A = n ∧ n ≤ 900719925474099

def IdText (t : List Char) (i : Ident) : Prop :=
  t ≠ [] ∧ t.all idChar = true ∧
    i = (if t.all digit && decide (decimal t < 18446744073709551616) then .num (decimal t) else .alpha t)

/-- `('.' id)*` -/
inductive TailText : List Char → List Ident → Prop
  | nil : TailText [] []
  | cons {t i T is} : IdText t i → TailText T is → TailText ('.' :: (t ++ T)) (i :: is)

/-- `id ('.' id)*` -/
def IdsText (T : List Char) (ids : List Ident) : Prop :=
  ∃ t i T' is, T = t ++ T' ∧ ids = i :: is ∧ IdText t i ∧ TailText T' is

def PreText (P : List Char) (pre : List Ident) : Prop :=
  (P = [] ∧ pre = []) ∨ (∃ T, P = '-' :: T ∧ IdsText T pre) ∨
  (IdsText P pre ∧ ∃ c t, P = c :: t ∧ letter c = true)

def BuildText (Q : List Char) (b : List Ident) : Prop :=
  (Q = [] ∧ b = []) ∨ ∃ T, Q = '+' :: T ∧ IdsText T b

def VersionLang (s : List Char) (v : Version) : Prop :=
  utf8Length s ≤ 256 ∧
  ∃ pfx b1 A B C P Q b2,
    s = pfx ++ (b1 ++ (A ++ '.' :: (B ++ '.' :: (C ++ (P ++ (Q ++ b2)))))) ∧
    (pfx = [] ∨ pfx = ['v'] ∨ pfx = ['V']) ∧ b1.all blank = true ∧ b2.all blank = true ∧
    NumText A v.major ∧ NumText B v.minor ∧ NumText C v.patch ∧
    PreText P v.pre ∧ BuildText Q v.build

end Semver.Spec
