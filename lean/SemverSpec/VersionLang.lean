import SemverModel.Basic
/-!
# The language of version strings `Version::parse` is specified to accept (C05)

Written from the property statement and the crate's documented loose spellings:
`[vV]? blank* major '.' minor '.' patch ( '-'? pre )? ( '+' build )? blank*` where the numbers are
decimal digit strings (leading zeros tolerated) with value at most MAX_SAFE_INTEGER, `pre` and
`build` are non-empty dot-separated lists of non-empty identifiers over `[0-9A-Za-z-]`, a prerelease
written without its hyphen starts with a letter, blanks are spaces and tabs, and the whole string is
at most MAX_LENGTH bytes.  An identifier made only of digits whose value fits 64 bits is numeric.

The definition is deliberately *split-based* (cut at `+`, cut at `.`), unlike the crate's
left-to-right combinator parser.
-/
namespace Semver.Spec
open Semver

def digit (c : Char) : Bool := c.toNat ≥ 48 && c.toNat ≤ 57
def letter (c : Char) : Bool := (c.toNat ≥ 97 && c.toNat ≤ 122) || (c.toNat ≥ 65 && c.toNat ≤ 90)
def idChar (c : Char) : Bool := digit c || letter c || c == '-'
def blank (c : Char) : Bool := c == ' ' || c == '\t'

def decimal (ds : List Char) : Nat := ds.foldl (fun n c => 10 * n + (c.toNat - 48)) 0

/-- split at every occurrence of `sep` -/
def splitAll (sep : Char) : List Char → List (List Char)
  | [] => [[]]
  | c :: cs =>
    if c == sep then [] :: splitAll sep cs
    else match splitAll sep cs with
      | [] => [[c]]
      | x :: xs => (c :: x) :: xs

/-- split at the first occurrence of `sep` -/
def splitFirst (sep : Char) : List Char → List Char × Option (List Char)
  | [] => ([], none)
  | c :: cs =>
    if c == sep then ([], some cs)
    else let r := splitFirst sep cs; (c :: r.1, r.2)

def toIdent (t : List Char) : Option Ident :=
  if t.isEmpty || !t.all idChar then none
  else if t.all digit && decimal t < 18446744073709551616 then some (.num (decimal t))
  else some (.alpha t)

def toIdents (t : List Char) : Option (List Ident) := (splitAll '.' t).mapM toIdent

def toNumber (t : List Char) : Option Nat :=
  if t.isEmpty || !t.all digit then none
  else if decimal t ≤ 900719925474099 then some (decimal t) else none

def utf8Length (s : List Char) : Nat := (s.map Char.utf8Size).foldl (· + ·) 0

def dropWhileEnd (p : Char → Bool) (s : List Char) : List Char := (s.reverse.dropWhile p).reverse

/-- the version denoted by a string of the language, `none` if the string is not in it -/
def denotedVersion (s : List Char) : Option Version :=
  if utf8Length s > 256 then none else
  let s1 := match s with
    | 'v' :: t => t
    | 'V' :: t => t
    | _ => s
  let body := dropWhileEnd blank (s1.dropWhile blank)
  let (front, build) := splitFirst '+' body
  -- front = major '.' minor '.' patch [('-')? pre]
  let major := front.takeWhile digit
  match front.dropWhile digit with
  | '.' :: r1 =>
    let minor := r1.takeWhile digit
    match r1.dropWhile digit with
    | '.' :: r2 =>
      let patch := r2.takeWhile digit
      let tail := r2.dropWhile digit
      let pre : Option (List Ident) :=
        match tail with
        | [] => some []
        | '-' :: t => toIdents t
        | c :: t => if letter c then toIdents (c :: t) else none
      let bld : Option (List Ident) :=
        match build with
        | none => some []
        | some b => toIdents b
      match toNumber major, toNumber minor, toNumber patch, pre, bld with
      | some a, some b, some c, some p, some q => some ⟨a, b, c, p, q⟩
      | _, _, _, _, _ => none
    | _ => none
  | _ => none

end Semver.Spec
